package main

import (
	"context"
	"os"
	"path/filepath"
	"sync"
	"time"

	"verifharness/rec"

	bigbuff "github.com/joeycumines/go-bigbuff"
)

// cmdBulk: C01 with large batches under real contention (no scheduler, no hooks in the way). A few producers Put batches
// of several thousand consecutive integers in tight loops on a Buffer without consumers (nothing is ever evicted); at the
// end the contents are read once and logged run-length encoded (maximal runs of consecutive integers). BulkTV.tla checks,
// without any search, that no batch is split, that a producer's batches appear in order and that nothing else is there.
func cmdBulk(args map[string]string) {
	t0 := time.Now()
	out := args["out"]
	os.MkdirAll(out, 0o755)
	seed := atoi64(args["seed"], 1)
	n := int(atoi64(args["n"], 4))
	st := newStats("bulk", "f", seed)
	w, err := rec.NewWriter(filepath.Join(out, "trace.ndjson"))
	if err != nil {
		fatalf("%v", err)
	}
	for x := 0; x < n; x++ {
		var evs []rec.Ev
		var mu sync.Mutex
		evs = append(evs, rec.Ev{"ev": "reset", "exec": x, "mode": "f"})
		b := new(bigbuff.Buffer)
		np := 3 + int((seed+int64(x))%2)
		nb := 10 + int((seed+int64(x))%7)
		var wg sync.WaitGroup
		start := make(chan struct{})
		for p := 1; p <= np; p++ {
			p := p
			wg.Add(1)
			go func() {
				defer wg.Done()
				next := p * 10000000
				<-start
				for k := 0; k < nb; k++ {
					size := 4200 + (p*7919+k*104729+int(seed)*31+x*17)%9000
					vals := make([]interface{}, size)
					for i := range vals {
						vals[i] = next + i
					}
					err := b.Put(context.Background(), vals...)
					mu.Lock()
					evs = append(evs, rec.Ev{"ev": "putr", "g": p, "first": next, "n": size, "ok": err == nil})
					mu.Unlock()
					next += size
				}
			}()
		}
		close(start)
		wg.Wait()
		s := b.Slice()
		runs := [][]int{}
		bad := 0
		for i := 0; i < len(s); {
			v, ok := s[i].(int)
			if !ok {
				bad++
				i++
				continue
			}
			j := i + 1
			for j < len(s) {
				if w2, ok2 := s[j].(int); !ok2 || w2 != v+(j-i) {
					break
				}
				j++
			}
			runs = append(runs, []int{v, j - i})
			i = j
		}
		evs = append(evs, rec.Ev{"ev": "slicer", "runs": runs, "len": len(s), "notint": bad})
		b.Close()
		w.WriteExec(evs)
		st.Executions++
	}
	w.Close()
	st.Events = w.Lines
	st.Nontrivial = st.Executions
	st.schedHashes["bulk"] = true
	st.write(out, t0)
}
