package main

import (
	"context"
	"encoding/json"
	"fmt"
	"math/rand"
	"sync"
	"sync/atomic"
	"time"

	"verifharness/rec"

	bigbuff "github.com/joeycumines/go-bigbuff"
)

// WCOp is one operation of a WaitCond program: wait (until the shared value is >= K, with context Ctx, 0 = nil context),
// set (the shared value, then Broadcast), cancel (a context), nop, bad (invalid arguments).
type WCOp struct {
	K   string `json:"k"`
	Ctx int    `json:"ctx,omitempty"`
	V   int    `json:"v,omitempty"`
	N   int    `json:"n,omitempty"`
	Via string `json:"via,omitempty"`
}

type WCScenario struct {
	NCtx    int      `json:"nctx"`
	Drivers [][]WCOp `json:"drivers"`
	Profile string   `json:"profile"`
	RW      bool     `json:"rw,omitempty"` // waiters use the read side of a RWMutex (cond.L = rw.RLocker())
}

type wcExec struct {
	e       *Env
	sc      *WCScenario
	mu      sync.RWMutex
	cond    *sync.Cond
	flag    int          // protected by mu
	writers atomic.Int32 // goroutines inside a write section of mu
	inside  atomic.Int32 // goroutines inside any section of mu
	ctxs    []context.Context
	cancels []context.CancelFunc
}

// ctx: 0 = nil, 1..NCtx cancellable, NCtx+1 = context.Background() (a context nobody can ever cancel)
func (x *wcExec) ctx(i int) context.Context {
	if i == len(x.ctxs) {
		return context.Background()
	}
	if i <= 0 || i > len(x.ctxs) {
		return nil
	}
	return x.ctxs[i]
}

// enter / leave bracket code that runs with the cond's lock held; overlap = the lock did not exclude somebody
func (x *wcExec) enter(write bool) (overlap bool) {
	n := x.inside.Add(1)
	w := x.writers.Load()
	if write {
		w = x.writers.Add(1)
		overlap = n != 1
	} else {
		overlap = w != 0
	}
	_ = w
	return overlap
}
func (x *wcExec) leave(write bool) {
	if write {
		x.writers.Add(-1)
	}
	x.inside.Add(-1)
}

func (x *wcExec) do(g string, op WCOp) {
	r := x.e.R
	switch op.K {
	case "nop":
		for i := 0; i <= op.N; i++ {
			ctl.Gate("drv.nop")
		}
	case "wait":
		excl := !x.sc.RW
		ctl.Gate("drv.call")
		ctl.Gate("drv.wc.lock")
		x.cond.L.Lock()
		r.Call(g, "Wait", "ctx", op.Ctx, "k", op.V)
		var err error
		p := safeCall(func() {
			err = bigbuff.WaitCond(x.ctx(op.Ctx), x.cond, func() bool {
				ov := x.enter(excl)
				ctl.Gate("drv.wc.pred")
				v := x.flag
				r.Add(rec.Ev{"ev": "pred", "g": g, "val": v, "ok": v >= op.V, "overlap": ov})
				x.leave(excl)
				return v >= op.V
			})
		})
		// still holding the lock here, whatever WaitCond returned
		ov := x.enter(excl)
		ctl.Gate("drv.wc.after")
		v := x.flag
		res := cls(err, p)
		if err == context.Canceled {
			res = "canceled"
		}
		r.Ret(g, "Wait", "r", res, "msg", msg(err, p), "val", v, "overlap", ov)
		x.leave(excl)
		x.cond.L.Unlock()
	case "set":
		ctl.Gate("drv.call")
		ctl.Gate("drv.wc.lock")
		x.mu.Lock()
		ov := x.enter(true)
		ctl.Gate("drv.wc.set")
		x.flag = op.V
		r.Add(rec.Ev{"ev": "set", "g": g, "v": op.V, "overlap": ov})
		x.leave(true)
		x.cond.Broadcast()
		x.mu.Unlock()
	case "cancel":
		if op.Ctx <= 0 || op.Ctx >= len(x.cancels) {
			return
		}
		ctl.Gate("drv.call")
		r.Add(rec.Ev{"ev": "cancel", "g": g, "ctx": op.Ctx})
		x.cancels[op.Ctx]()
		r.Add(rec.Ev{"ev": "cancelled", "g": g, "ctx": op.Ctx})
	case "bad":
		// invalid arguments are reported by an error, nothing is called, nothing is waited for
		called := false
		fn := func() bool { called = true; return true }
		var err error
		p := safeCall(func() {
			switch op.Via {
			case "nilcond":
				err = bigbuff.WaitCond(context.Background(), nil, fn)
			case "nillocker":
				err = bigbuff.WaitCond(context.Background(), &sync.Cond{}, fn)
			case "nilfn":
				var m sync.Mutex
				m.Lock()
				err = bigbuff.WaitCond(context.Background(), sync.NewCond(&m), nil)
			}
		})
		r.Add(rec.Ev{"ev": "bad", "g": g, "via": op.Via, "err": err != nil, "panicked": p != "", "called": called})
	}
}

func genWaitCondScenario(rng *rand.Rand, profile, mode string) any {
	// (profile "excl": exclusive lockers only - the shared-locker finding D6 belongs to C05, not to the other legs)
	sc := &WCScenario{Profile: profile, NCtx: 2, RW: rng.Intn(4) == 0 && profile != "excl"}
	nd, nops := 3+rng.Intn(2), 1+rng.Intn(3)
	if mode != "c" {
		nd, nops = 3+rng.Intn(3), 2+rng.Intn(4)
	}
	if rng.Intn(100) < 45 {
		// shape: the events that must wake a parked waiter race with its going to sleep
		w := WCOp{K: "wait", Ctx: rng.Intn(4), V: 1 + rng.Intn(2)}
		sc.Drivers = [][]WCOp{{w}, {{K: "nop", N: rng.Intn(10)}, {K: "set", V: rng.Intn(3)}}}
		if w.Ctx == 1 || w.Ctx == 2 {
			sc.Drivers = append(sc.Drivers, []WCOp{{K: "nop", N: rng.Intn(10)}, {K: "cancel", Ctx: w.Ctx}})
		}
		if rng.Intn(2) == 0 {
			sc.Drivers = append(sc.Drivers, []WCOp{{K: "nop", N: rng.Intn(6)}, {K: "wait", Ctx: rng.Intn(4), V: 1 + rng.Intn(3)}})
		}
		if rng.Intn(2) == 0 {
			sc.Drivers = append(sc.Drivers, []WCOp{{K: "nop", N: rng.Intn(12)}, {K: "set", V: rng.Intn(4)}})
		}
		return sc
	}
	for d := 0; d < nd; d++ {
		var ops []WCOp
		for i := 0; i < nops; i++ {
			if rng.Intn(3) == 0 {
				ops = append(ops, WCOp{K: "nop", N: rng.Intn(8)})
			}
			switch r := rng.Intn(100); {
			case d%2 == 0 && r < 70:
				ops = append(ops, WCOp{K: "wait", Ctx: rng.Intn(4), V: 1 + rng.Intn(4)})
			case r < 60:
				ops = append(ops, WCOp{K: "set", V: rng.Intn(5)})
			case r < 92:
				ops = append(ops, WCOp{K: "cancel", Ctx: 1 + rng.Intn(2)})
			default:
				ops = append(ops, WCOp{K: "bad", Via: []string{"nilcond", "nillocker", "nilfn"}[rng.Intn(3)]})
			}
		}
		sc.Drivers = append(sc.Drivers, ops)
	}
	return sc
}

func runWaitCondExec(execID int, sci any, e *Env) []rec.Ev {
	sc := sci.(*WCScenario)
	x := &wcExec{e: e, sc: sc}
	if sc.RW {
		x.cond = sync.NewCond(x.mu.RLocker())
	} else {
		x.cond = sync.NewCond(&x.mu)
	}
	x.ctxs = make([]context.Context, sc.NCtx+1)
	x.cancels = make([]context.CancelFunc, sc.NCtx+1)
	for i := 1; i <= sc.NCtx; i++ {
		x.ctxs[i], x.cancels[i] = withCancelCause(context.Background())
	}
	e.R.Add(rec.Ev{"ev": "reset", "exec": execID, "mode": e.Mode, "rw": sc.RW})
	for i, ops := range sc.Drivers {
		ops := ops
		e.Spawn(fmt.Sprintf("D%d", i+1), func(g string) {
			for _, op := range ops {
				x.do(g, op)
			}
		})
	}
	quiescent := func(phase int) {
		e.R.Add(rec.Ev{"ev": "quiescent", "phase": phase, "pending": e.Pending(), "exact": true})
	}
	e.WaitTerminal()
	if e.Infra == "" && !e.Res.Diverged {
		quiescent(0)
		// epilogue: a value that satisfies every waiter
		e.Spawn("E1", func(g string) { x.do(g, WCOp{K: "set", V: 100}) })
		e.WaitTerminal()
		quiescent(1)
	}
	// every context that can be cancelled is cancelled before the census (C12's wording); waits on context.Background()
	// have returned too, so a watcher goroutine that only its parent context would release is counted
	for i := 1; i <= sc.NCtx; i++ {
		x.cancels[i]()
	}
	left := e.End(3*time.Second, harnessOrLib)
	nlib := 0
	for _, g := range left {
		if libFrame(g) && !containsSpawn(g) {
			nlib++
		}
	}
	e.R.Add(rec.Ev{"ev": "final", "leaked": nlib, "returned": e.DriversDone()})
	e.St.Leaks += nlib
	return e.R.Events()
}

func cmdWaitCond(args map[string]string) {
	runDriver(scenarioRunner{
		name: "waitcond",
		gen:  genWaitCondScenario,
		decode: func(b []byte) any {
			var sc WCScenario
			json.Unmarshal(b, &sc)
			return &sc
		},
		run:  runWaitCondExec,
		reps: 4,
	}, args)
}
