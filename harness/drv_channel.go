package main

import (
	"context"
	"encoding/json"
	"fmt"
	"math/rand"
	"sync"
	"sync/atomic"
	"time"

	"verifharness/rec"
	"verifharness/sched"

	bigbuff "github.com/joeycumines/go-bigbuff"
)

// COp is one operation of a Channel program.
type COp struct {
	K   string `json:"k"` // get commit rollback buffer close send srcclose cancel pcancel
	Ctx int    `json:"ctx,omitempty"`
}

type CScenario struct {
	NCtx    int     `json:"nctx"`
	PollUs  int     `json:"poll_us"`
	Setup   []COp   `json:"setup"`
	Drivers [][]COp `json:"drivers"`
	Profile string  `json:"profile"`
}

type chanExec struct {
	e       *Env
	sc      *CScenario
	c       *bigbuff.Channel
	src     chan int
	srcMu   sync.Mutex
	nextVal int
	closed  bool
	ctxs    []context.Context
	cancels []context.CancelFunc
	pcancel context.CancelFunc
	ready   atomic.Bool // the setup driver has created the Channel
}

func (x *chanExec) ctx(i int) context.Context {
	if i <= 0 || i >= len(x.ctxs) {
		return context.Background()
	}
	return x.ctxs[i]
}

func (x *chanExec) do(g string, op COp) {
	r := x.e.R
	switch op.K {
	case "get":
		ctl.Gate("drv.call")
		r.Call(g, "Get", "ctx", op.Ctx)
		var v interface{}
		var err error
		p := safeCall(func() { v, err = x.c.Get(x.ctx(op.Ctx)) })
		if err != nil || p != "" {
			r.Ret(g, "Get", "r", cls(err, p), "msg", msg(err, p), "v", 0)
		} else {
			iv, ok := v.(int)
			if !ok {
				iv = -1
			}
			r.Ret(g, "Get", "r", "ok", "v", iv)
		}
	case "commit":
		ctl.Gate("drv.call")
		r.Call(g, "Commit")
		var err error
		p := safeCall(func() { err = x.c.Commit() })
		r.Ret(g, "Commit", "r", cls(err, p), "msg", msg(err, p))
	case "rollback":
		ctl.Gate("drv.call")
		r.Call(g, "Rollback")
		var err error
		p := safeCall(func() { err = x.c.Rollback() })
		r.Ret(g, "Rollback", "r", cls(err, p), "msg", msg(err, p))
	case "buffer":
		ctl.Gate("drv.call")
		r.Call(g, "Buffer")
		var s []interface{}
		p := safeCall(func() { s = x.c.Buffer() })
		is := make([]int, len(s))
		for i, v := range s {
			is[i], _ = v.(int)
		}
		r.Ret(g, "Buffer", "r", cls(nil, p), "s", is)
	case "close":
		ctl.Gate("drv.call")
		r.Call(g, "Close")
		var err error
		p := safeCall(func() { err = x.c.Close() })
		dc := false
		select {
		case <-x.c.Done():
			dc = true
		default:
		}
		r.Ret(g, "Close", "r", cls(err, p), "msg", msg(err, p), "done", dc)
	case "send":
		ctl.Gate("drv.call")
		x.srcMu.Lock()
		if !x.closed && len(x.src) < cap(x.src) {
			x.nextVal++
			r.Add(rec.Ev{"ev": "src", "g": g, "v": x.nextVal})
			x.src <- x.nextVal
		}
		x.srcMu.Unlock()
	case "srcclose":
		ctl.Gate("drv.call")
		x.srcMu.Lock()
		if !x.closed {
			x.closed = true
			r.Add(rec.Ev{"ev": "srcclose", "g": g})
			close(x.src)
		}
		x.srcMu.Unlock()
	case "cancel":
		if op.Ctx <= 0 || op.Ctx >= len(x.cancels) {
			return
		}
		ctl.Gate("drv.call")
		r.Add(rec.Ev{"ev": "cancel", "g": g, "ctx": op.Ctx})
		x.cancels[op.Ctx]()
		r.Add(rec.Ev{"ev": "cancelled", "g": g, "ctx": op.Ctx})
	case "pcancel":
		ctl.Gate("drv.call")
		r.Add(rec.Ev{"ev": "cancel", "g": g, "ctx": 100})
		x.pcancel()
		r.Add(rec.Ev{"ev": "cancelled", "g": g, "ctx": 100})
	}
}

func (x *chanExec) quiescent(phase int, exact bool) {
	bl, rb := bigbuff.VerifChannelState(x.c)
	x.e.R.Add(rec.Ev{"ev": "quiescent", "phase": phase, "exact": exact, "buflen": bl, "rb": rb, "pending": x.e.Pending()})
}

func genChanScenario(rng *rand.Rand, profile, mode string) any {
	sc := &CScenario{Profile: profile, NCtx: 1 + rng.Intn(2), PollUs: []int{100, 200, 500}[rng.Intn(3)]}
	nd, nops := 2+rng.Intn(2), 3+rng.Intn(4)
	if mode != "c" {
		nd, nops = 2+rng.Intn(3), 5+rng.Intn(10)
	}
	type w struct {
		k string
		w int
	}
	ws := []w{{"get", 34}, {"send", 22}, {"commit", 14}, {"rollback", 14}, {"buffer", 6}, {"cancel", 4}, {"close", 3}, {"srcclose", 2}, {"pcancel", 1}}
	if profile == "close" {
		ws = []w{{"get", 30}, {"send", 18}, {"commit", 10}, {"rollback", 10}, {"buffer", 6}, {"cancel", 8}, {"close", 10}, {"srcclose", 3}, {"pcancel", 5}}
	}
	tot := 0
	for _, e := range ws {
		tot += e.w
	}
	pick := func() string {
		r := rng.Intn(tot)
		for _, e := range ws {
			if r < e.w {
				return e.k
			}
			r -= e.w
		}
		return "get"
	}
	if rng.Intn(8) == 0 {
		// shape: the PARENT context (cancelling it needs no lock of the Channel) is cancelled while Gets find values in
		// the source - whatever a Get has taken out of the source is either returned or still in Buffer()
		for i := 1 + rng.Intn(2); i > 0; i-- {
			sc.Setup = append(sc.Setup, COp{K: "send"})
		}
		gets := []COp{{K: "get"}, {K: "get"}, {K: "buffer"}}
		if rng.Intn(2) == 0 {
			gets = []COp{{K: "get"}, {K: "commit"}, {K: "get"}, {K: "buffer"}}
		}
		sc.Drivers = append(sc.Drivers, gets, []COp{{K: "buffer"}, {K: "pcancel"}})
		if rng.Intn(2) == 0 {
			sc.Drivers = append(sc.Drivers, []COp{{K: "send"}, {K: "send"}})
		}
		return sc
	}
	for i := rng.Intn(3); i > 0; i-- {
		sc.Setup = append(sc.Setup, COp{K: "send"})
	}
	for d := 0; d < nd; d++ {
		var ops []COp
		for i := 0; i < nops; i++ {
			op := COp{K: pick()}
			if op.K == "get" && rng.Intn(3) > 0 || op.K == "cancel" {
				op.Ctx = 1 + rng.Intn(sc.NCtx)
			}
			ops = append(ops, op)
		}
		sc.Drivers = append(sc.Drivers, ops)
	}
	return sc
}

func runChanExec(execID int, sci any, e *Env) []rec.Ev {
	sc := sci.(*CScenario)
	x := &chanExec{e: e, sc: sc, src: make(chan int, 64)}
	x.ctxs = make([]context.Context, sc.NCtx+1)
	x.cancels = make([]context.CancelFunc, sc.NCtx+1)
	for i := 1; i <= sc.NCtx; i++ {
		x.ctxs[i], x.cancels[i] = withCancelCause(context.Background())
	}
	var parent context.Context
	parent, x.pcancel = withCancelCause(context.Background())
	e.R.Add(rec.Ev{"ev": "reset", "exec": execID, "mode": e.Mode})
	if e.Mode != "c" {
		lastLen, lastChange := 0, time.Now()
		e.FreeIdle = func() bool {
			if !x.ready.Load() {
				return false
			}
			if n := e.R.Len(); n != lastLen {
				lastLen, lastChange = n, time.Now()
				return false
			}
			return time.Since(lastChange) > 4*time.Millisecond
		}
	}
	e.Spawn("S", func(g string) {
		ctl.Gate("drv.call")
		c, err := bigbuff.NewChannel(parent, time.Duration(sc.PollUs)*time.Microsecond, x.src)
		if err != nil {
			panic(err)
		}
		x.c = c
		x.ready.Store(true)
		for _, op := range sc.Setup {
			x.do(g, op)
		}
		for i, ops := range sc.Drivers {
			ops := ops
			e.Spawn(fmt.Sprintf("D%d", i+1), func(g string) {
				for _, op := range ops {
					x.do(g, op)
				}
			})
		}
	})
	exact := e.Mode == "c"
	e.WaitTerminal()
	if e.Infra == "" && !e.Res.Diverged {
		x.quiescent(0, exact)
		e.Spawn("E1", func(g string) {
			for i := 1; i <= sc.NCtx; i++ {
				x.do(g, COp{K: "cancel", Ctx: i})
			}
		})
		e.WaitTerminal()
	}
	if e.Infra == "" && !e.Res.Diverged {
		x.quiescent(1, exact)
		e.Spawn("E2", func(g string) {
			x.do(g, COp{K: "close"})
		})
		e.WaitTerminal()
	}
	if e.Infra == "" && !e.Res.Diverged {
		x.quiescent(2, exact)
		e.Spawn("E3", func(g string) {
			for _, k := range []string{"get", "commit", "rollback", "buffer", "close", "get"} {
				x.do(g, COp{K: k})
			}
		})
		e.WaitTerminal()
		x.quiescent(3, exact)
	}
	x.pcancel()
	for i := 1; i <= sc.NCtx; i++ {
		x.cancels[i]()
	}
	left := e.End(3*time.Second, harnessOrLib)
	nlib := 0
	for _, g := range left {
		if libFrame(g) && !containsSpawn(g) {
			nlib++
		}
	}
	// what is left in the source channel
	rest := []int{}
	x.srcMu.Lock()
	if !x.closed {
		x.closed = true
		close(x.src)
	}
	x.srcMu.Unlock()
	for v := range x.src {
		rest = append(rest, v)
	}
	e.R.Add(rec.Ev{"ev": "final", "leaked": nlib, "returned": e.DriversDone(), "rest": rest})
	e.St.Leaks += nlib
	return e.R.Events()
}

func containsSpawn(g sched.GInfo) bool {
	return len(g.Stack) > 0 && (stringsContains(g.Stack, "main.(*Env).Spawn"))
}

func cmdChannel(args map[string]string) {
	runDriver(scenarioRunner{
		name: "channel",
		gen:  genChanScenario,
		decode: func(b []byte) any {
			var sc CScenario
			json.Unmarshal(b, &sc)
			return &sc
		},
		run:  runChanExec,
		poll: []string{"channel.get."},
		reps: 3,
		program: func(b []byte) any {
			// a behaviour generated by TLC from ChannelGEN.tla: one caller, calls in order
			var calls []struct {
				K string `json:"k"`
			}
			if err := json.Unmarshal(b, &calls); err != nil {
				fatalf("bad program %q: %v", b, err)
			}
			sc := &CScenario{Profile: "gen", NCtx: 1, PollUs: 100}
			for _, c := range calls {
				if c.K == "getpre" {
					sc.Setup = append([]COp{{K: "cancel", Ctx: 1}}, sc.Setup...)
					break
				}
			}
			for _, c := range calls {
				switch c.K {
				case "getpre":
					sc.Setup = append(sc.Setup, COp{K: "get", Ctx: 1})
				default:
					sc.Setup = append(sc.Setup, COp{K: c.K})
				}
			}
			return sc
		},
	}, args)
}
