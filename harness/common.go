package main

import (
	"context"
	"encoding/json"
	"errors"
	"fmt"
	"os"
	"path/filepath"
	"strings"
	"sync"
	"time"

	"verifharness/rec"
	"verifharness/sched"

	bigbuff "github.com/joeycumines/go-bigbuff"
)

var ctl = sched.New()

func init() { bigbuff.VerifSetHook(ctl.Hook) }

// errClass maps an error to the class names used by the specifications.
func errClass(err error) string {
	if err == nil {
		return "ok"
	}
	if errors.Is(err, context.Canceled) || errors.Is(err, context.DeadlineExceeded) {
		return "canceled"
	}
	s := err.Error()
	switch {
	case strings.Contains(s, "past"):
		return "past"
	case strings.Contains(s, "unknown consumer"):
		return "unknown"
	case strings.Contains(s, "nothing to commit"), strings.Contains(s, "nothing to rollback"):
		return "nothing"
	case strings.Contains(s, "only be called once"), strings.Contains(s, "closed at most once"):
		return "once"
	}
	return "other:" + s
}

// Stats accumulated by a driver run and written as stats.json.
type Stats struct {
	Driver      string         `json:"driver"`
	Mode        string         `json:"mode"`
	Seed        int64          `json:"seed"`
	Executions  int            `json:"executions"`
	Events      int            `json:"events"`
	Steps       int            `json:"steps"`
	Stuck       int            `json:"stuck_terminals"`
	Infra       []string       `json:"infra,omitempty"`
	Abandoned   []string       `json:"abandoned,omitempty"`
	Distinct    int            `json:"distinct_schedules"`
	Nontrivial  int            `json:"nontrivial"`
	Points      map[string]int `json:"points,omitempty"`
	OpCounts    map[string]int `json:"op_counts,omitempty"`
	Samples     []any          `json:"samples,omitempty"`
	WallS       float64        `json:"wall_s"`
	Leaks       int            `json:"leaks"`
	ExecIndex   []ExecInfo     `json:"exec_index,omitempty"`
	schedHashes map[string]bool
}

// ExecInfo locates one execution inside the trace file and keeps what is needed to replay it.
type ExecInfo struct {
	Exec     int      `json:"exec"`
	Line     int      `json:"line"` // 1-based line of its reset event
	Seed     int64    `json:"seed"`
	Scenario any      `json:"scenario,omitempty"`
	Choices  []string `json:"choices,omitempty"`
}

func newStats(driver, mode string, seed int64) *Stats {
	return &Stats{Driver: driver, Mode: mode, Seed: seed, Points: map[string]int{}, OpCounts: map[string]int{}, schedHashes: map[string]bool{}}
}

func (s *Stats) write(dir string, t0 time.Time) {
	s.WallS = time.Since(t0).Seconds()
	s.Distinct = len(s.schedHashes)
	b, _ := json.MarshalIndent(s, "", " ")
	os.WriteFile(filepath.Join(dir, "stats.json"), b, 0o644)
}

func fatalf(format string, args ...any) {
	fmt.Fprintf(os.Stderr, "harness: "+format+"\n", args...)
	os.Exit(2)
}

// libFrame reports whether a goroutine has a frame inside the library under test.
func libFrame(g sched.GInfo) bool {
	return strings.Contains(g.Stack, "github.com/joeycumines/go-bigbuff.")
}

// safeCall runs f, converting a panic into a string.
func safeCall(f func()) (panicked string) {
	defer func() {
		if r := recover(); r != nil {
			panicked = fmt.Sprint(r)
		}
	}()
	f()
	return ""
}

var _ = rec.New
var _ sync.Mutex

func stringsContains(s, sub string) bool { return strings.Contains(s, sub) }

// errCause is the cause every context of the harness is cancelled with: the library promises the context's error
// (context.Canceled), not the cause
var errCause = errors.New("harness: cancellation cause")

// withCancelCause is context.WithCancel, except that cancelling records a cause
func withCancelCause(parent context.Context) (context.Context, context.CancelFunc) {
	ctx, cancel := context.WithCancelCause(parent)
	return ctx, func() { cancel(errCause) }
}
