// Package rec records call/return histories and other events as ndjson lines.
package rec

import (
	"bufio"
	"encoding/json"
	"os"
	"sync"
)

// Ev is one trace line. Only non-zero fields are emitted, except that every line has ev.
type Ev map[string]any

type Rec struct {
	mu   sync.Mutex
	evs  []Ev
	open map[string]int // g -> index of its pending call event
}

func New() *Rec { return &Rec{open: map[string]int{}} }

// Add appends an event (safe for concurrent use; the order of Add calls is the trace order).
func (r *Rec) Add(e Ev) int {
	r.mu.Lock()
	defer r.mu.Unlock()
	r.evs = append(r.evs, e)
	return len(r.evs) - 1
}

// Call logs a call event for goroutine g; kv are alternating key, value.
func (r *Rec) Call(g, op string, kv ...any) {
	e := Ev{"ev": "call", "g": g, "op": op, "ret": 0}
	for i := 0; i+1 < len(kv); i += 2 {
		e[kv[i].(string)] = kv[i+1]
	}
	r.mu.Lock()
	r.evs = append(r.evs, e)
	r.open[g] = len(r.evs) - 1
	r.mu.Unlock()
}

// Ret logs the return of g's pending call.
func (r *Rec) Ret(g, op string, kv ...any) {
	e := Ev{"ev": "ret", "g": g, "op": op}
	for i := 0; i+1 < len(kv); i += 2 {
		e[kv[i].(string)] = kv[i+1]
	}
	r.mu.Lock()
	r.evs = append(r.evs, e)
	if ci, ok := r.open[g]; ok {
		r.evs[ci]["ret"] = len(r.evs) // 1-based index of the ret line within this execution
		delete(r.open, g)
	}
	r.mu.Unlock()
}

func (r *Rec) Len() int {
	r.mu.Lock()
	defer r.mu.Unlock()
	return len(r.evs)
}

// Events returns the recorded events (not a copy).
func (r *Rec) Events() []Ev { return r.evs }

// Pending returns the goroutines with a call that has not returned.
func (r *Rec) Pending() []string {
	r.mu.Lock()
	defer r.mu.Unlock()
	var out []string
	for g := range r.open {
		out = append(out, g)
	}
	return out
}

// Writer appends executions to one ndjson file, converting per-execution "ret" indices to file line numbers.
type Writer struct {
	f     *os.File
	w     *bufio.Writer
	Lines int
}

func NewWriter(path string) (*Writer, error) {
	f, err := os.Create(path)
	if err != nil {
		return nil, err
	}
	return &Writer{f: f, w: bufio.NewWriterSize(f, 1<<20)}, nil
}

// WriteExec writes one execution's events; the first event should be the "reset" line.
func (w *Writer) WriteExec(evs []Ev) error {
	base := w.Lines
	for _, e := range evs {
		if e["ev"] == "call" {
			if ri, _ := e["ret"].(int); ri > 0 {
				e["ret"] = base + ri
			}
		}
		b, err := json.Marshal(e)
		if err != nil {
			return err
		}
		w.w.Write(b)
		w.w.WriteByte('\n')
		w.Lines++
	}
	return nil
}

func (w *Writer) Close() error {
	if err := w.w.Flush(); err != nil {
		return err
	}
	return w.f.Close()
}
