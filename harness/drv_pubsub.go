package main

import (
	"context"
	"encoding/json"
	"fmt"
	"math/rand"
	"sort"
	"sync"
	"time"

	"verifharness/rec"

	bigbuff "github.com/joeycumines/go-bigbuff"
)

// POp is one operation of a ChanPubSub program.
type POp struct {
	K   string `json:"k"` // send | sub recv unsub | iter | subctx | cancel | nop
	N   int    `json:"n,omitempty"`
	Ctx int    `json:"ctx,omitempty"`
}

type PScenario struct {
	NCtx    int      `json:"nctx"`
	Drivers [][]POp  `json:"drivers"` // drivers whose first real op is send are senders
	Names   []string `json:"names"`
	Profile string   `json:"profile"`
}

type psExec struct {
	e       *Env
	ps      *bigbuff.ChanPubSub[chan int, int]
	ctxs    []context.Context
	cancels []context.CancelFunc
	quit    chan struct{}
	mu      sync.Mutex
	ctxSubs map[int]map[string]bool // ctx -> subscribers currently relying on it (iterators and never-run iterators)
	ctxDead map[int]bool            // ctx -> its cancellation has been announced
	autoSub map[string]bool         // subscribers whose iterator is never run
	sendSeq map[string]int
	seqs    map[string]func(func(int) bool) // iterators that were not run when they were made
	seqCtx  map[string]int
}

func (x *psExec) ctx(i int) context.Context {
	if i <= 0 || i >= len(x.ctxs) {
		return context.Background()
	}
	return x.ctxs[i]
}

func (x *psExec) do(g string, op POp) {
	r := x.e.R
	switch op.K {
	case "nop":
		for i := 0; i <= op.N; i++ {
			ctl.Gate("drv.nop")
		}
	case "send":
		x.mu.Lock()
		x.sendSeq[g]++
		v := gnum(g)*100 + x.sendSeq[g]
		x.mu.Unlock()
		ctl.Gate("drv.call")
		r.Call(g, "Send", "v", v)
		n := -1
		p := safeCall(func() { n = x.ps.Send(v) })
		r.Ret(g, "Send", "r", cls(nil, p), "msg", p, "n", n)
	case "sub":
		ctl.Gate("drv.call")
		r.Call(g, "Sub", "auto", false, "dead", false)
		p := safeCall(func() { x.ps.Subscribe() })
		r.Ret(g, "Sub", "r", cls(nil, p), "msg", p)
	case "subn", "unsubn":
		// Add(+k) / Add(-k): k subscriptions made / withdrawn by one call; in the trace they are k subscribers g#1..g#k
		// whose Subscribe / Unsubscribe calls span the same interval (they never receive)
		k := op.N
		opn, delta := "Sub", k
		if op.K == "unsubn" {
			opn, delta = "Unsub", -k
		}
		ctl.Gate("drv.call")
		for i := 1; i <= k; i++ {
			if opn == "Sub" {
				r.Call(fmt.Sprintf("%s#%d", g, i), opn, "auto", false, "dead", false)
			} else {
				r.Call(fmt.Sprintf("%s#%d", g, i), opn)
			}
		}
		p := safeCall(func() { x.ps.Add(delta) })
		for i := 1; i <= k; i++ {
			r.Ret(fmt.Sprintf("%s#%d", g, i), opn, "r", cls(nil, p), "msg", p)
		}
	case "recv":
		// receive one value then Wait (the contract), unless the harness tells subscribers to leave
		ctl.Gate("drv.call")
		r.Call(g, "RecvWait")
		p := safeCall(func() {
			select {
			case v, ok := <-x.ps.C():
				if ok {
					r.Add(rec.Ev{"ev": "recv", "g": g, "v": v, "iter": false})
					ctl.Gate("drv.ack")
					r.Add(rec.Ev{"ev": "ack", "g": g})
					x.ps.Wait()
				}
			case <-x.quit:
			}
		})
		r.Ret(g, "RecvWait", "r", cls(nil, p), "msg", p)
	case "unsub":
		ctl.Gate("drv.call")
		r.Call(g, "Unsub")
		p := safeCall(func() { x.ps.Unsubscribe() })
		r.Ret(g, "Unsub", "r", cls(nil, p), "msg", p)
	case "iter":
		// SubscribeContext + range, leaving after N values (or when the context is cancelled)
		ctl.Gate("drv.call")
		x.mu.Lock()
		if x.ctxSubs[op.Ctx] == nil {
			x.ctxSubs[op.Ctx] = map[string]bool{}
		}
		x.ctxSubs[op.Ctx][g] = true // registered before subscribing: a concurrent cancel announces our withdrawal
		r.Call(g, "Sub", "auto", false, "dead", x.ctxDead[op.Ctx])
		x.mu.Unlock()
		var seq func(func(int) bool)
		p := safeCall(func() { seq = x.ps.SubscribeContext(x.ctx(op.Ctx)) })
		r.Ret(g, "Sub", "r", cls(nil, p), "msg", p)
		if p != "" {
			return
		}
		ctl.Gate("drv.call")
		r.Call(g, "RecvWait")
		k := op.N
		p = safeCall(func() {
			seq(func(v int) bool {
				r.Add(rec.Ev{"ev": "recv", "g": g, "v": v, "iter": true})
				k--
				if k <= 0 {
					x.mu.Lock()
					delete(x.ctxSubs[op.Ctx], g)
					x.mu.Unlock()
					r.Add(rec.Ev{"ev": "wd", "gs": []string{g}, "auto": []string{}})
					return false
				}
				return true
			})
		})
		r.Ret(g, "RecvWait", "r", cls(nil, p), "msg", p)
		// the iterator has unsubscribed before it returned
		r.Call(g, "Unsub")
		r.Ret(g, "Unsub", "r", "ok")
	case "subctx":
		// SubscribeContext whose iterator is never run: the library unsubscribes when the context is cancelled
		ctl.Gate("drv.call")
		x.mu.Lock()
		if x.ctxSubs[op.Ctx] == nil {
			x.ctxSubs[op.Ctx] = map[string]bool{}
		}
		x.ctxSubs[op.Ctx][g] = true
		x.autoSub[g] = true
		r.Call(g, "Sub", "auto", true, "dead", x.ctxDead[op.Ctx])
		x.mu.Unlock()
		p := safeCall(func() {
			seq := x.ps.SubscribeContext(x.ctx(op.Ctx))
			x.mu.Lock()
			x.seqs[g], x.seqCtx[g] = seq, op.Ctx
			x.mu.Unlock()
		})
		r.Ret(g, "Sub", "r", cls(nil, p), "msg", p)
	case "latenil":
		// the iterator made earlier (and never run) is invoked now, with a nil yield function: it must panic, and the
		// subscription must be withdrawn exactly once - by this call if the context is still live, not again otherwise
		x.mu.Lock()
		seq, ctxID := x.seqs[g], x.seqCtx[g]
		delete(x.seqs, g)
		if seq == nil {
			x.mu.Unlock()
			return
		}
		x.mu.Unlock()
		ctl.Gate("drv.call")
		x.mu.Lock()
		if x.ctxSubs[ctxID][g] {
			delete(x.ctxSubs[ctxID], g)
			delete(x.autoSub, g)
			r.Add(rec.Ev{"ev": "wd", "gs": []string{g}, "auto": []string{g}})
		}
		x.mu.Unlock()
		p := safeCall(func() { seq(nil) })
		r.Add(rec.Ev{"ev": "latenil", "g": g, "panicked": p != ""})
	case "cancel":
		if op.Ctx <= 0 || op.Ctx >= len(x.cancels) {
			return
		}
		ctl.Gate("drv.call")
		x.mu.Lock()
		gs, auto := []string{}, []string{}
		for s := range x.ctxSubs[op.Ctx] {
			gs = append(gs, s)
			if x.autoSub[s] {
				auto = append(auto, s)
				delete(x.autoSub, s)
			}
		}
		delete(x.ctxSubs, op.Ctx)
		x.ctxDead[op.Ctx] = true
		sort.Strings(gs)
		sort.Strings(auto)
		r.Add(rec.Ev{"ev": "wd", "gs": gs, "auto": auto, "ctx": op.Ctx})
		x.mu.Unlock()
		x.cancels[op.Ctx]()
	}
}

func genPSScenario(rng *rand.Rand, profile, mode string) any {
	sc := &PScenario{Profile: profile, NCtx: 2}
	if profile == "herd" {
		// free-running only: one sender sending back to back, two standing subscribers, and waves of short-lived
		// SubscribeContext subscribers that join while Sends are starting - a population far beyond the other profiles
		nsend := 120 + rng.Intn(80)
		var ops []POp
		for i := 0; i < nsend; i++ {
			ops = append(ops, POp{K: "send"})
		}
		sc.Drivers, sc.Names = append(sc.Drivers, ops), append(sc.Names, "P1")
		for u := 1; u <= 2; u++ {
			ops := []POp{{K: "sub"}}
			for i := 0; i < nsend+5; i++ {
				ops = append(ops, POp{K: "recv"})
			}
			ops = append(ops, POp{K: "unsub"})
			sc.Drivers, sc.Names = append(sc.Drivers, ops), append(sc.Names, fmt.Sprintf("U%d", u))
		}
		for h := 1; h <= 24+rng.Intn(12); h++ {
			var ops []POp
			for k := 0; k < 3+rng.Intn(3); k++ {
				ops = append(ops, POp{K: "nop", N: rng.Intn(4)}, POp{K: "iter", N: 1 + rng.Intn(2), Ctx: 1})
			}
			sc.Drivers, sc.Names = append(sc.Drivers, ops), append(sc.Names, fmt.Sprintf("H%d", h))
		}
		return sc
	}
	if rng.Intn(100) < 30 {
		// shape: subscribers that leave in the middle of a Send nobody receives from, followed at once by further Sends
		// (the hand-over of the pings a leaver absorbs, and what the next Send counts)
		ops := []POp{{K: "nop", N: 2 + rng.Intn(10)}, {K: "send"}, {K: "send"}}
		if rng.Intn(2) == 0 {
			ops = append(ops, POp{K: "send"})
		}
		sc.Drivers, sc.Names = append(sc.Drivers, ops), append(sc.Names, "P1")
		if rng.Intn(3) == 0 {
			sc.Drivers, sc.Names = append(sc.Drivers, []POp{{K: "nop", N: rng.Intn(12)}, {K: "send"}}), append(sc.Names, "P2")
		}
		for i, n := 0, 2+rng.Intn(2); i < n; i++ {
			ops := []POp{{K: "nop", N: rng.Intn(3)}, {K: "sub"}}
			if i == 2 && rng.Intn(2) == 0 {
				ops = append(ops, POp{K: "recv"})
			}
			ops = append(ops, POp{K: "nop", N: rng.Intn(14)}, POp{K: "unsub"})
			sc.Drivers, sc.Names = append(sc.Drivers, ops), append(sc.Names, fmt.Sprintf("U%d", i+1))
		}
		if rng.Intn(2) == 0 {
			// several subscriptions made and withdrawn by single Add(+k) / Add(-k) calls
			k := 2 + rng.Intn(2)
			sc.Drivers, sc.Names = append(sc.Drivers, []POp{{K: "nop", N: rng.Intn(3)}, {K: "subn", N: k}, {K: "nop", N: rng.Intn(14)}, {K: "unsubn", N: k}}), append(sc.Names, "M1")
		}
		if rng.Intn(3) == 0 {
			// a SubscribeContext arriving during those Sends with a context that is being cancelled
			sc.Drivers, sc.Names = append(sc.Drivers, []POp{{K: "nop", N: rng.Intn(12)}, {K: "subctx", Ctx: 1}, {K: "nop", N: rng.Intn(12)}, {K: "latenil"}}), append(sc.Names, "U9")
			sc.Drivers, sc.Names = append(sc.Drivers, []POp{{K: "nop", N: rng.Intn(12)}, {K: "cancel", Ctx: 1}}), append(sc.Names, "X1")
		}
		return sc
	}
	nsend := 1 + rng.Intn(2)
	nsub := 2 + rng.Intn(2)
	if mode != "c" {
		nsub = 2 + rng.Intn(4)
	}
	for i := 0; i < nsend; i++ {
		var ops []POp
		m := 1 + rng.Intn(3)
		for k := 0; k < m; k++ {
			ops = append(ops, POp{K: "nop", N: rng.Intn(10)}, POp{K: "send"})
		}
		sc.Drivers = append(sc.Drivers, ops)
		sc.Names = append(sc.Names, fmt.Sprintf("P%d", i+1))
	}
	usedCtx := false
	for i := 0; i < nsub; i++ {
		var ops []POp
		switch r := rng.Intn(10); {
		case r < 6: // manual subscriber, possibly subscribing twice
			rounds := 1 + rng.Intn(2)
			for k := 0; k < rounds; k++ {
				ops = append(ops, POp{K: "nop", N: rng.Intn(8)}, POp{K: "sub"})
				for j := rng.Intn(3); j > 0; j-- {
					ops = append(ops, POp{K: "recv"})
				}
				ops = append(ops, POp{K: "nop", N: rng.Intn(8)}, POp{K: "unsub"})
			}
		case r < 9: // iterator
			ops = append(ops, POp{K: "nop", N: rng.Intn(8)}, POp{K: "iter", N: 1 + rng.Intn(3), Ctx: 1 + rng.Intn(2)})
			usedCtx = true
		default: // iterator never run (or only much later, with a nil yield function)
			ops = append(ops, POp{K: "nop", N: rng.Intn(8)}, POp{K: "subctx", Ctx: 1 + rng.Intn(2)})
			if rng.Intn(2) == 0 {
				ops = append(ops, POp{K: "nop", N: rng.Intn(12)}, POp{K: "latenil"})
			}
			usedCtx = true
		}
		sc.Drivers = append(sc.Drivers, ops)
		sc.Names = append(sc.Names, fmt.Sprintf("U%d", i+1))
	}
	if usedCtx && rng.Intn(2) == 0 {
		sc.Drivers = append(sc.Drivers, []POp{{K: "nop", N: rng.Intn(20)}, {K: "cancel", Ctx: 1 + rng.Intn(2)}})
		sc.Names = append(sc.Names, "X1")
	}
	return sc
}

func runPSExec(execID int, sci any, e *Env) []rec.Ev {
	sc := sci.(*PScenario)
	x := &psExec{e: e, ps: bigbuff.NewChanPubSub(make(chan int)), quit: make(chan struct{}),
		ctxSubs: map[int]map[string]bool{}, ctxDead: map[int]bool{}, autoSub: map[string]bool{}, sendSeq: map[string]int{},
		seqs: map[string]func(func(int) bool){}, seqCtx: map[string]int{}}
	x.ctxs = make([]context.Context, sc.NCtx+1)
	x.cancels = make([]context.CancelFunc, sc.NCtx+1)
	for i := 1; i <= sc.NCtx; i++ {
		var inner context.Context
		inner, x.cancels[i] = context.WithCancel(context.Background())
		// the contexts handed to SubscribeContext are scheduling points of the environment (see countingCtx)
		x.ctxs[i] = &countingCtx{inner: inner}
	}
	e.R.Add(rec.Ev{"ev": "reset", "exec": execID, "mode": e.Mode})
	for i, ops := range sc.Drivers {
		ops := ops
		e.Spawn(sc.Names[i], func(g string) {
			for _, op := range ops {
				x.do(g, op)
			}
		})
	}
	quiescent := func(phase int) {
		subs, pongN, hi, lo, broken := bigbuff.VerifChanPubSubState(x.ps)
		e.R.Add(rec.Ev{"ev": "quiescent", "phase": phase, "pending": e.Pending(), "subscribers": subs, "pongN": pongN, "hi": hi, "lo": lo, "broken": broken})
	}
	e.WaitTerminal()
	if e.Infra == "" && !e.Res.Diverged {
		quiescent(0)
		close(x.quit)
		e.Spawn("E1", func(g string) {
			for i := 1; i <= sc.NCtx; i++ {
				x.do(g, POp{K: "cancel", Ctx: i})
			}
		})
		e.WaitTerminal()
	}
	if e.Infra == "" && !e.Res.Diverged {
		quiescent(1)
		// the instance still works: nobody is subscribed, a Send returns 0 without blocking
		e.Spawn("E2", func(g string) { x.do(g, POp{K: "send"}) })
		e.WaitTerminal()
	}
	select {
	case <-x.quit:
	default:
		close(x.quit)
	}
	for i := 1; i <= sc.NCtx; i++ {
		x.cancels[i]()
	}
	left := e.End(3*time.Second, harnessOrLib)
	nlib := 0
	for _, g := range left {
		if libFrame(g) && !containsSpawn(g) {
			nlib++
		}
	}
	subs, _, _, _, broken := bigbuff.VerifChanPubSubState(x.ps)
	e.R.Add(rec.Ev{"ev": "final", "leaked": nlib, "returned": e.DriversDone(), "subscribers": subs, "broken": broken})
	e.St.Leaks += nlib
	return e.R.Events()
}

func cmdPubSub(args map[string]string) {
	runDriver(scenarioRunner{
		name: "pubsub",
		gen:  genPSScenario,
		decode: func(b []byte) any {
			var sc PScenario
			json.Unmarshal(b, &sc)
			return &sc
		},
		run:   runPSExec,
		reps:  4,
		small: func(sc any) bool { return true },
	}, args)
}
