package main

import (
	"fmt"
	"os"
	"strconv"
	"strings"
)

func atoi64(s string, def int64) int64 {
	if s == "" {
		return def
	}
	v, err := strconv.ParseInt(s, 10, 64)
	if err != nil {
		fatalf("bad integer %q", s)
	}
	return v
}

var commands = map[string]func(args map[string]string){
	"buffer":    cmdBuffer,
	"channel":   cmdChannel,
	"notifier":  cmdNotifier,
	"callable":  cmdCallable,
	"workers":   cmdWorkers,
	"worker":    cmdWorker,
	"waitcond":  cmdWaitCond,
	"bulk":      cmdBulk,
	"exclusive": cmdExclusive,
	"pubsub":    cmdPubSub,
	"caster":    cmdCaster,
	"retry":     cmdRetry,
	"attempt":   cmdAttempt,
	"context":   cmdContext,
}

// usage: harness <driver> -k v -k v ...
func main() {
	if len(os.Args) < 2 {
		fmt.Fprintln(os.Stderr, "usage: harness <driver> [-key value]...")
		os.Exit(2)
	}
	args := map[string]string{}
	for i := 2; i+1 < len(os.Args); i += 2 {
		args[strings.TrimLeft(os.Args[i], "-")] = os.Args[i+1]
	}
	cmd, ok := commands[os.Args[1]]
	if !ok {
		fatalf("unknown driver %q", os.Args[1])
	}
	cmd(args)
}
