package main

import (
	"context"
	"errors"
	"fmt"
	"os"
	"path/filepath"
	"time"

	"verifharness/rec"

	bigbuff "github.com/joeycumines/go-bigbuff"
)

// cmdRetry enumerates ExponentialRetry scenarios: outcome sequences x cancellation points x rates.
// outcomes: "e" plain error, "f1".."f3" error wrapped 1..3 times by FatalError, "ok" success.
// cancel: none | "before:i" (before call i) | "during:i" (inside call i) | "wait:i" (inside the wait after call i)
func cmdRetry(args map[string]string) {
	t0 := time.Now()
	out := args["out"]
	os.MkdirAll(out, 0o755)
	thorough := args["tier"] == "thorough"
	st := newStats("retry", "enum", atoi64(args["seed"], 1))
	w, err := rec.NewWriter(filepath.Join(out, "trace.ndjson"))
	if err != nil {
		fatalf("%v", err)
	}
	var evs []rec.Ev
	maxLen := 4
	if thorough {
		maxLen = 5
	}
	alphabet := []string{"e", "f1", "f2", "f3", "ok"}
	var seqsOf func(n int) [][]string
	seqsOf = func(n int) [][]string {
		if n == 0 {
			return [][]string{{}}
		}
		var out [][]string
		for _, p := range seqsOf(n - 1) {
			// a sequence ends at the first terminal outcome
			if len(p) > 0 && p[len(p)-1] != "e" {
				continue
			}
			for _, a := range alphabet {
				out = append(out, append(append([]string{}, p...), a))
			}
		}
		return out
	}
	rates := []time.Duration{0, -5, time.Millisecond, 7 * time.Microsecond}
	for n := 1; n <= maxLen; n++ {
		for _, seq := range seqsOf(n) {
			if seq[len(seq)-1] == "e" && n < maxLen {
				continue // only maximal-length sequences may end with a plain error (then a cancel must end the loop)
			}
			cancels := []string{"none"}
			for i := 1; i <= n; i++ {
				cancels = append(cancels, fmt.Sprintf("before:%d", i), fmt.Sprintf("during:%d", i), fmt.Sprintf("wait:%d", i))
			}
			cancels = append(cancels, "pre")
			for _, cn := range cancels {
				if seq[len(seq)-1] == "e" && cn == "none" {
					continue // would retry for ever
				}
				for ri, rate := range rates {
					if !thorough && ri > 1 && n > 2 {
						continue
					}
					evs = append(evs, retryCase(seq, cn, rate)...)
					st.Executions++
				}
			}
		}
	}
	// the real delay calculation and the real wait, sampled
	for k := uint32(1); k <= 40; k++ {
		for _, rate := range []time.Duration{time.Nanosecond, time.Microsecond, 3 * time.Millisecond, 333333333} {
			for rep := 0; rep < 20; rep++ {
				d := bigbuff.VerifCalcExponentialRetry(rate, k)
				slots := int64(d / rate)
				evs = append(evs, rec.Ev{"ev": "calc", "k": int(k), "rate_ns": int64(rate), "exact": int64(d)%int64(rate) == 0, "slots_hi": slots >> 20, "slots_lo": slots & (1<<20 - 1)})
			}
		}
	}
	{
		ctx, cancel := withCancelCause(context.Background())
		t := time.Now()
		go func() { time.Sleep(2 * time.Millisecond); cancel() }()
		bigbuff.VerifWaitDuration(ctx, 6*time.Second) // (cut short after 2 ms; 6 s if the cancellation is ignored)
		evs = append(evs, rec.Ev{"ev": "wait", "cut_short": time.Since(t) < 5*time.Second})
		// a context with a far-away deadline is cancelled explicitly: the wait is cut short all the same
		ctx2, cancel2 := context.WithTimeout(context.Background(), 2*time.Hour)
		t = time.Now()
		go func() { time.Sleep(2 * time.Millisecond); cancel2() }()
		bigbuff.VerifWaitDuration(ctx2, 6*time.Second)
		evs = append(evs, rec.Ev{"ev": "wait", "cut_short": time.Since(t) < 5*time.Second})
		t = time.Now()
		bigbuff.VerifWaitDuration(context.Background(), 3*time.Millisecond)
		evs = append(evs, rec.Ev{"ev": "wait", "cut_short": time.Since(t) >= 3*time.Millisecond})
	}
	w.WriteExec(evs)
	w.Close()
	st.Events = w.Lines
	st.Nontrivial = st.Executions
	st.schedHashes["enum"] = true
	st.write(out, t0)
}

type baseErr struct{ id int }

func (b baseErr) Error() string { return fmt.Sprintf("base%d", b.id) }

// retryCase runs one scenario; a scenario without cancellation invokes the function ExponentialRetry returned a second
// time (same script): every invocation is a fresh retry loop (second event, "again": true)
func retryCase(seq []string, cancelAt string, rate time.Duration) []rec.Ev {
	ctx, cancel := withCancelCause(context.Background())
	defer cancel()
	if cancelAt == "pre" {
		cancel()
	}
	calls := 0
	var delays []map[string]any
	waits := 0
	oldWait := bigbuff.VerifSetWaitDuration(func(c context.Context, d time.Duration) {
		waits++
		if cancelAt == fmt.Sprintf("wait:%d", waits) {
			cancel()
		}
		// the scripted wait returns at once (the real wait is exercised separately)
	})
	oldCalc := bigbuff.VerifSetCalcExponentialRetry(nil)
	bigbuff.VerifSetCalcExponentialRetry(func(d time.Duration, c uint32) time.Duration {
		v := oldCalc(d, c)
		slots := int64(0)
		if d > 0 {
			slots = int64(v / d)
		}
		delays = append(delays, map[string]any{"k": int(c), "rate_ns": int64(d), "exact": d > 0 && int64(v)%int64(d) == 0, "slots_hi": slots >> 20, "slots_lo": slots & (1<<20 - 1)})
		return v
	})
	defer bigbuff.VerifSetWaitDuration(oldWait)
	defer bigbuff.VerifSetCalcExponentialRetry(oldCalc)
	fn := bigbuff.ExponentialRetry(ctx, rate, func() (interface{}, error) {
		calls++
		i := calls
		if cancelAt == fmt.Sprintf("during:%d", i) {
			cancel()
		}
		if i > len(seq) {
			return i * 10, errors.New("beyond script")
		}
		switch o := seq[i-1]; o {
		case "ok":
			return i * 10, nil
		case "e":
			return i * 10, baseErr{i}
		default: // f1..f3
			var e error = baseErr{i}
			for k := 0; k < int(o[1]-'0'); k++ {
				e = bigbuff.FatalError(e)
			}
			return i * 10, e
		}
	})
	// "before:i": cancel right before call i would start: done from inside the scripted wait after call i-1, or up front
	if cancelAt == "before:1" {
		cancel()
	}
	if len(cancelAt) > 7 && cancelAt[:7] == "before:" && cancelAt != "before:1" {
		// equivalent to cancelling during the wait that precedes call i
		var i int
		fmt.Sscanf(cancelAt, "before:%d", &i)
		cancelAt = fmt.Sprintf("wait:%d", i-1)
	}
	var out []rec.Ev
	invocations := 1
	if cancelAt == "none" {
		invocations = 2
	}
	ckind, cidx := cancelAt, 0
	if n, _ := fmt.Sscanf(cancelAt, "during:%d", &cidx); n == 1 {
		ckind = "during"
	} else if n, _ := fmt.Sscanf(cancelAt, "wait:%d", &cidx); n == 1 {
		ckind = "wait"
	} else if cancelAt == "before:1" {
		ckind = "pre"
	}
	eff := rate
	if eff <= 0 {
		eff = 300 * time.Millisecond
	}
	for inv := 0; inv < invocations; inv++ {
		calls, delays, waits = 0, nil, 0
		var res interface{}
		var err error
		p := safeCall(func() { res, err = fn() })
		ev := rec.Ev{"ev": "retry", "seq": seq, "cancel": cancelAt, "ckind": ckind, "cidx": cidx, "rate_ns": int64(rate), "eff_rate_ns": int64(eff), "calls": calls, "panic": p != "", "again": inv > 0}
		if res == nil {
			ev["res"] = 0
		} else {
			ev["res"] = res
		}
		switch e := err.(type) {
		case nil:
			ev["err"] = "nil"
		case baseErr:
			ev["err"] = fmt.Sprintf("base%d", e.id)
		default:
			if errors.Is(err, context.Canceled) {
				ev["err"] = "canceled"
			} else {
				ev["err"] = "other"
			}
		}
		if delays == nil {
			delays = []map[string]any{}
		}
		ev["delays"] = delays
		out = append(out, ev)
	}
	return out
}
