package main

import (
	"encoding/json"
	"fmt"
	"math/rand"
	"os"
	"path/filepath"
	"runtime"
	"sort"
	"strings"
	"sync/atomic"
	"time"

	"verifharness/rec"
	"verifharness/sched"
)

// Env is the per-execution environment shared by the drivers: recorder, mode, controller options, driver accounting.
type Env struct {
	R        *rec.Rec
	Mode     string // "c" controlled, "f" free-running
	Opts     sched.Options
	Res      sched.Result
	Infra    string
	Confirm  bool
	St       *Stats
	self     int64
	before   map[int64]bool // goroutines that existed before this execution (e.g. left stuck by an earlier one)
	done     atomic.Int32
	total    atomic.Int32
	FreeIdle func() bool // optional (free mode): extra condition for "nothing more will happen" (e.g. pollers only)
}

var envDFS *sched.DFS // set by runDriver while a small scenario is being enumerated
var lockTrace bool    // -locks 1: record which goroutines are simultaneously inside critical sections (C11)
var freeYield = 4     // free-running mode: 1-in-N chance of a perturbation at a hook point (0: none - profile "stress")
var gateTrace bool    // -gates 1: record every scheduling decision (goroutine, hook point) as a "step" line (L2 binding)

func NewEnv(mode string, seed int64, strategy string, replay []string, st *Stats, confirm bool, pollPrefixes ...string) *Env {
	e := &Env{R: rec.New(), Mode: mode, St: st, Confirm: confirm, self: sched.Goid(), before: map[int64]bool{}}
	for _, g := range sched.Snapshot() {
		e.before[g.Gid] = true
	}
	e.Opts = sched.Options{Seed: seed, Strategy: strategy, Replay: replay, PCTDepth: 3, IdleProb: 150, MaxSteps: 6000, PollPrefixes: pollPrefixes, DFS: envDFS}
	ctl.OnHolders = nil
	ctl.OnStep = nil
	if mode == "c" && gateTrace {
		ctl.OnStep = func(st sched.Step) { e.R.Add(rec.Ev{"ev": "step", "g": st.Role, "pt": st.Pt}) }
	}
	if mode == "c" {
		if lockTrace {
			ctl.OnHolders = func(held []sched.Arrival) {
				hs := make([]map[string]any, len(held))
				for i, h := range held {
					hs[i] = map[string]any{"g": h.Role, "pt": h.Pt, "obj": h.Obj}
				}
				e.R.Add(rec.Ev{"ev": "locks", "held": hs})
			}
		}
		ctl.Begin(e.Opts)
	} else {
		ctl.StartFree(seed, freeYield)
	}
	return e
}

// Spawn starts a named driver goroutine.
func (e *Env) Spawn(name string, f func(g string)) {
	e.total.Add(1)
	go func() {
		ctl.Register(name)
		defer e.done.Add(1)
		f(name)
	}()
}

func (e *Env) DriversDone() bool { return e.done.Load() == e.total.Load() }

// WaitTerminal runs until nothing can happen any more; it returns whether driver calls are still pending.
func (e *Env) WaitTerminal() (stuck bool) {
	if e.Infra != "" || e.Res.Diverged {
		return false
	}
	if e.Mode == "c" {
		r := ctl.Run(e.Opts, e.DriversDone)
		for r.Infra == "" && !r.Diverged && !r.PollOnly {
			n := len(r.Steps)
			time.Sleep(500 * time.Microsecond)
			r = ctl.Run(e.Opts, e.DriversDone)
			if len(r.Steps) == n {
				break
			}
		}
		e.Res.Steps, e.Res.Choices, e.Res.Blocked = r.Steps, r.Choices, r.Blocked
		if e.Opts.DFS != nil {
			e.Opts.DFS.Frozen = true // only the main phase of an execution is enumerated
		}
		if r.Infra != "" {
			e.Infra = r.Infra
		}
		if r.Diverged {
			e.Res.Diverged = true
		}
		if r.Stuck && e.Confirm {
			time.Sleep(time.Second)
		}
		return r.Stuck
	}
	deadline := time.Now().Add(20 * time.Second)
	for {
		if e.DriversDone() && e.FreeIdle == nil {
			// all calls returned; still wait for exact quiescence of library goroutines below
		}
		if q, _ := sched.FreeQuiescent(e.self); q {
			runtime.Gosched()
			if q2, _ := sched.FreeQuiescent(e.self); q2 {
				return !e.DriversDone()
			}
		}
		if e.FreeIdle != nil && e.FreeIdle() {
			return !e.DriversDone()
		}
		if time.Now().After(deadline) {
			e.Infra = "free mode: no quiescence within 20s"
			return !e.DriversDone()
		}
		time.Sleep(100 * time.Microsecond)
	}
}

// End leaves controlled/free mode and waits for every goroutine of this execution to exit; returns those left.
func (e *Env) End(budget time.Duration, match func(g sched.GInfo) bool) []sched.GInfo {
	if e.Mode == "c" {
		ctl.End()
	} else {
		ctl.Stop()
	}
	if !e.DriversDone() {
		// calls that never returned keep their goroutines for ever: do not wait for them
		budget = 100 * time.Millisecond
		e.St.Stuck++
	}
	left := sched.WaitGone(e.self, budget, func(g sched.GInfo) bool { return !e.before[g.Gid] && match(g) })
	runtime.GC()
	return left
}

func (e *Env) Pending() []string {
	p := e.R.Pending()
	sort.Strings(p)
	if p == nil {
		p = []string{}
	}
	return p
}

// harnessOrLib matches goroutines that belong to the library under test or to harness drivers.
func harnessOrLib(g sched.GInfo) bool {
	return libFrame(g) || strings.Contains(g.Stack, "main.(*Env).Spawn")
}

// ---------------------------------------------------------------------------------------------------------------
// generic driver command loop

type scenarioRunner struct {
	name string
	// gen creates a scenario (JSON-able) from the rng
	gen func(rng *rand.Rand, profile, mode string) any
	// decode turns the JSON form (from a replay file) back into the scenario type
	decode func(b []byte) any
	// run executes one scenario and returns its events
	run func(execID int, sc any, e *Env) []rec.Ev
	// poll prefixes for the controller
	poll []string
	// reps: schedules per scenario in controlled mode
	reps int
	// small reports whether a scenario is small enough for the preemption-bounded enumeration of its schedules
	small func(sc any) bool
	// program turns one TLC-generated behaviour (a JSON list of call records) into a scenario
	program func(b []byte) any
}

func runDriver(sr scenarioRunner, args map[string]string) {
	t0 := time.Now()
	mode := args["mode"]
	profile := args["profile"]
	if profile == "stress" || profile == "herd" {
		freeYield = 0 // maximal real contention: no perturbation sleeps at the hook points
	}
	seed := atoi64(args["seed"], 1)
	n := int(atoi64(args["n"], 100))
	out := args["out"]
	os.MkdirAll(out, 0o755)
	st := newStats(sr.name+"/"+profile, mode, seed)
	w, err := rec.NewWriter(filepath.Join(out, "trace.ndjson"))
	if err != nil {
		fatalf("%v", err)
	}
	if rp := args["replay"]; rp != "" {
		var ei ExecInfo
		b, err := os.ReadFile(rp)
		if err != nil {
			fatalf("%v", err)
		}
		if err := json.Unmarshal(b, &ei); err != nil {
			fatalf("%v", err)
		}
		sb, _ := json.Marshal(ei.Scenario)
		sc := sr.decode(sb)
		strategy := "replay"
		e := NewEnv(mode, ei.Seed, strategy, ei.Choices, st, true, sr.poll...)
		evs := sr.run(0, sc, e)
		if e.Infra != "" {
			st.Infra = append(st.Infra, e.Infra)
		}
		if e.Res.Diverged {
			st.Infra = append(st.Infra, "replay diverged")
		}
		st.ExecIndex = append(st.ExecIndex, ExecInfo{Exec: 0, Line: 1, Seed: ei.Seed, Scenario: sc, Choices: e.Res.Choices})
		w.WriteExec(evs)
		w.Close()
		st.Executions = 1
		st.Events = w.Lines
		st.write(out, t0)
		return
	}
	rng := rand.New(rand.NewSource(seed))
	strategies := []string{"hold", "random", "hold", "pct"}
	if args["locks"] == "1" {
		lockTrace = true
		strategies = []string{"holdlock", "holdlock", "random", "hold"}
	}
	if args["gates"] == "1" {
		gateTrace = true
	}
	var fixed any
	if sf := args["scenario"]; sf != "" {
		b, err := os.ReadFile(sf)
		if err != nil {
			fatalf("%v", err)
		}
		fixed = sr.decode(b)
	}
	reps := 1
	if mode == "c" && sr.reps > 0 {
		reps = sr.reps
	}
	// -programs FILE: replay TLC-generated behaviours (one JSON list per line), one execution each
	var programs [][]byte
	if pf := args["programs"]; pf != "" && sr.program != nil {
		b, err := os.ReadFile(pf)
		if err != nil {
			fatalf("%v", err)
		}
		for _, ln := range strings.Split(string(b), "\n") {
			if strings.TrimSpace(ln) != "" {
				programs = append(programs, []byte(ln))
			}
		}
		n, reps = len(programs), 1
	}
	for i := 0; i < n && st.Stuck < 12; i++ { // a dozen executions whose calls never returned are evidence enough
		sc := sr.gen(rng, profile, mode)
		if fixed != nil {
			sc = fixed
		}
		if programs != nil {
			sc = sr.program(programs[i])
		}
		eseed := rng.Int63()
		nreps := reps
		if dfsMax := int(atoi64(args["dfsmax"], 0)); mode == "c" && dfsMax > 0 && sr.small != nil && sr.small(sc) {
			envDFS = &sched.DFS{Bound: int(atoi64(args["dfsbound"], 2))}
			nreps = dfsMax
		}
		for k := 0; k < nreps; k++ {
			strategy := strategies[(i+k)%len(strategies)]
			if fs := args["strategy"]; fs != "" {
				strategy = fs
			}
			if envDFS != nil {
				if !envDFS.Next() {
					st.OpCounts["dfs_exhausted"]++
					break
				}
				strategy = "dfs"
			}
			e := NewEnv(mode, eseed+int64(k), strategy, nil, st, false, sr.poll...)
			evs := sr.run(st.Executions, sc, e)
			if e.Infra != "" {
				// this execution could not be controlled (e.g. a goroutine spinning without reaching a hook): it is
				// abandoned and not validated; too many of them make the whole run an infrastructure failure
				st.Abandoned = append(st.Abandoned, fmt.Sprintf("exec %d: %s", st.Executions, e.Infra))
				if len(st.Abandoned) > 5+n*reps/10 {
					st.Infra = st.Abandoned
					w.Close()
					st.Events = w.Lines
					st.write(out, t0)
					fatalf("infrastructure failure: %s", e.Infra)
				}
				continue
			}
			line := w.Lines + 1
			w.WriteExec(evs)
			st.ExecIndex = append(st.ExecIndex, ExecInfo{Exec: st.Executions, Line: line, Seed: eseed + int64(k), Scenario: sc, Choices: e.Res.Choices})
			st.Executions++
			st.Steps += len(e.Res.Steps)
			for _, s := range e.Res.Steps {
				st.Points[s.Pt]++
			}
			var h string
			if mode == "c" {
				h = schedHash(e.Res.Steps)
			} else {
				h = evHash(evs)
			}
			if !st.schedHashes[h] {
				st.schedHashes[h] = true
				if overlaps(evs) {
					st.Nontrivial++
				}
			}
			if len(st.Samples) < 2 {
				st.Samples = append(st.Samples, map[string]any{"scenario": sc, "events": len(evs), "steps": len(e.Res.Steps), "first_events": headEvents(evs, 12)})
			}
		}
		if envDFS != nil {
			st.OpCounts["dfs_scenarios"]++
			st.OpCounts["dfs_schedules"] += envDFS.Schedules
			st.OpCounts["dfs_diverged"] += envDFS.Diverged
			envDFS = nil
		}
	}
	w.Close()
	st.Events = w.Lines
	st.write(out, t0)
}
