package main

import (
	"context"
	"crypto/sha1"
	"encoding/hex"
	"encoding/json"
	"fmt"
	"math/rand"
	"os"
	"path/filepath"
	"runtime"
	"sort"
	"strings"
	"sync"
	"sync/atomic"
	"time"

	"verifharness/rec"
	"verifharness/sched"

	bigbuff "github.com/joeycumines/go-bigbuff"
)

// BOp is one operation of a Buffer program.
type BOp struct {
	K   string `json:"k"`             // put newc get commit rollback close bclose size slice diff cancel range brange
	C   int    `json:"c,omitempty"`   // consumer slot
	Ctx int    `json:"ctx,omitempty"` // context id (0 = background)
	N   int    `json:"n,omitempty"`   // batch size / range limit
	M   string `json:"m,omitempty"`   // range callback behaviour: "" | "stop" | "panic"; put: "nil" = the values are nil
	// burst: N ms of put/get/commit on consumer C, GapUs apart, with Size observations; see the "sustain" profile
	GapUs int `json:"gap_us,omitempty"`
	// setcleaner: SetCleanerConfig while the buffer is in use (the cooldown of the scenario is kept); cfgget: CleanerConfig()
	Cl *BCleaner `json:"cl,omitempty"`
}

type BCleaner struct {
	Kind       string `json:"kind"` // default | fixed
	Max        int    `json:"max"`
	Target     int    `json:"target"`
	CooldownUs int    `json:"cooldown_us"`
}

// BScenario is one Buffer program.
type BScenario struct {
	Cleaner BCleaner `json:"cleaner"`
	NCtx    int      `json:"nctx"`
	Setup   []BOp    `json:"setup"`
	Drivers [][]BOp  `json:"drivers"`
	Profile string   `json:"profile"`
	Small   bool     `json:"small,omitempty"` // small enough for a preemption-bounded enumeration of schedules
	setOnce bool
}

type bufExec struct {
	execID   int
	t0       time.Time
	sc       *BScenario
	r        *rec.Rec
	b        *bigbuff.Buffer
	ctxs     []context.Context
	cancels  []context.CancelFunc
	mu       sync.Mutex
	cons     map[int]bigbuff.Consumer
	reserved map[int]bool
	valSeq   map[string]int
	done     atomic.Int32
	total    atomic.Int32
	st       *Stats
}

func (x *bufExec) ctx(i int) context.Context {
	if i <= 0 || i >= len(x.ctxs) {
		return context.Background()
	}
	return x.ctxs[i]
}

func (x *bufExec) con(slot int) bigbuff.Consumer {
	x.mu.Lock()
	defer x.mu.Unlock()
	return x.cons[slot]
}

func gnum(g string) int {
	n := 0
	for _, ch := range g {
		if ch >= '0' && ch <= '9' {
			n = n*10 + int(ch-'0')
		}
	}
	if strings.HasPrefix(g, "S") {
		return 9
	}
	if strings.HasPrefix(g, "E") {
		return 8
	}
	return n
}

func cls(err error, p string) string {
	if p != "" {
		return "panic"
	}
	c := errClass(err)
	if strings.HasPrefix(c, "other:") {
		return "other"
	}
	return c
}

// msg returns the detail of a panic / unclassified error (logged next to the class)
func msg(err error, p string) string {
	if p != "" {
		return p
	}
	if err != nil {
		return err.Error()
	}
	return ""
}

// loggingConsumer wraps a consumer so that the calls made by bigbuff.Range are recorded.
type loggingConsumer struct {
	x    *bufExec
	g    string
	slot int
	c    bigbuff.Consumer
	ctx  int
}

func (l *loggingConsumer) Close() error          { return l.c.Close() }
func (l *loggingConsumer) Done() <-chan struct{} { return l.c.Done() }
func (l *loggingConsumer) Get(ctx context.Context) (interface{}, error) {
	ctl.Gate("drv.call")
	l.x.r.Call(l.g, "Get", "c", l.slot, "ctx", l.ctx)
	v, err := l.c.Get(ctx)
	if err != nil {
		l.x.r.Ret(l.g, "Get", "r", cls(err, ""), "v", 0)
	} else {
		l.x.r.Ret(l.g, "Get", "r", "ok", "v", valCode(v))
	}
	return v, err
}
func (l *loggingConsumer) Commit() error {
	ctl.Gate("drv.call")
	l.x.r.Call(l.g, "Commit", "c", l.slot)
	err := l.c.Commit()
	l.x.r.Ret(l.g, "Commit", "r", cls(err, ""))
	return err
}
func (l *loggingConsumer) Rollback() error {
	ctl.Gate("drv.call")
	l.x.r.Call(l.g, "Rollback", "c", l.slot)
	err := l.c.Rollback()
	l.x.r.Ret(l.g, "Rollback", "r", cls(err, ""))
	return err
}

// nilVal is how a nil value (a legitimate value to Put) appears in traces; valCode maps what a consumer received to the
// trace's integers (-1: something no producer supplied)
const nilVal = -9

func valCode(v interface{}) int {
	if v == nil {
		return nilVal
	}
	if iv, ok := v.(int); ok {
		return iv
	}
	return -1
}

// slack of the bounded-delay check of the sustain profile: "cooldown plus scheduling latency", generously
const sustainSlack = 400 * time.Millisecond

func (x *bufExec) do(g string, op BOp) {
	switch op.K {
	case "setcleaner":
		if op.Cl == nil {
			return
		}
		ctl.Gate("drv.call")
		x.r.Call(g, "SetCleaner", "cleaner", map[string]any{"kind": op.Cl.Kind, "max": op.Cl.Max, "target": op.Cl.Target})
		var err error
		p := safeCall(func() {
			err = x.b.SetCleanerConfig(bigbuff.CleanerConfig{Cleaner: mkCleaner(*op.Cl), Cooldown: time.Duration(x.sc.Cleaner.CooldownUs) * time.Microsecond})
		})
		x.r.Ret(g, "SetCleaner", "r", cls(err, p), "msg", msg(err, p))
	case "badcleaner":
		// invalid configurations are refused with an error and change nothing
		ctl.Gate("drv.call")
		var e1, e2 error
		p := safeCall(func() {
			e1 = x.b.SetCleanerConfig(bigbuff.CleanerConfig{Cleaner: nil})
			e2 = x.b.SetCleanerConfig(bigbuff.CleanerConfig{Cleaner: bigbuff.DefaultCleaner, Cooldown: -1})
		})
		cfg := x.b.CleanerConfig()
		x.r.Add(rec.Ev{"ev": "badcleaner", "g": g, "refused": e1 != nil && e2 != nil && p == "",
			"cooldown_us": int(cfg.Cooldown / time.Microsecond), "want_us": x.sc.Cleaner.CooldownUs, "hasfn": cfg.Cleaner != nil})
	case "burst":
		// sustained traffic on a single consumer: state changes arrive faster than the cooldown for longer than
		// cooldown + slack; Commit returns and Size calls carry timestamps (us since the start of the execution) and
		// the number of values this consumer has committed, so that the trace spec can demand that what was committed
		// more than cooldown + slack before a Size call has been reclaimed
		c := x.con(op.C)
		if c == nil {
			return
		}
		us := func() int { return int(time.Since(x.t0) / time.Microsecond) }
		bound := int((time.Duration(x.sc.Cleaner.CooldownUs)*time.Microsecond + sustainSlack) / time.Microsecond)
		pos := 0
		total := time.Duration(op.N) * time.Millisecond // the burst lasts op.N ms, with six Size observations
		start, nextSize := time.Now(), total/6
		for time.Since(start) < total {
			x.do(g, BOp{K: "put", N: 1})
			x.do(g, BOp{K: "get", C: op.C})
			ctl.Gate("drv.call")
			x.r.Call(g, "Commit", "c", op.C)
			var err error
			p := safeCall(func() { err = c.Commit() })
			if err == nil && p == "" {
				pos++
			}
			x.r.Ret(g, "Commit", "r", cls(err, p), "msg", msg(err, p), "ts", us(), "pos", pos, "exec", x.execID)
			if time.Since(start) >= nextSize {
				nextSize += total / 6
				ctl.Gate("drv.call")
				x.r.Call(g, "Size", "ts", us(), "bound_us", bound, "exec", x.execID)
				n := x.b.Size()
				x.r.Ret(g, "Size", "n", n)
			}
			for t := time.Now(); time.Since(t) < time.Duration(op.GapUs)*time.Microsecond; {
				// busy wait: a sleeping driver would look like quiescence to the free-running detector
			}
		}
	case "nop":
		// only a scheduling point: lets the controller place the following call later relative to other goroutines
		for i := 0; i <= op.N; i++ {
			ctl.Gate("drv.nop")
		}
	case "put":
		n := op.N
		vals := make([]interface{}, n, n+3) // spare capacity: the library must not keep (or append into) the caller's slice
		ivals := make([]int, n)
		x.mu.Lock()
		for i := range vals {
			x.valSeq[g]++
			ivals[i] = gnum(g)*1000 + x.valSeq[g]
			vals[i] = ivals[i]
			if op.M == "nil" || (x.sc.Profile == "wake" && (ivals[i]*7+n)%9 == 0) {
				// nil is a value like any other: a blocked Get must be woken by it too
				ivals[i], vals[i] = nilVal, nil
			}
		}
		x.mu.Unlock()
		ctl.Gate("drv.call")
		x.r.Call(g, "Put", "ctx", op.Ctx, "vals", ivals)
		var err error
		p := safeCall(func() { err = x.b.Put(x.ctx(op.Ctx), vals...) })
		// the producer reuses its slice after Put has returned: scribble over it (a buffer that aliased it would show -7)
		for i := range vals {
			vals[i] = -7
		}
		_ = append(vals, -8, -8, -8)
		x.r.Ret(g, "Put", "r", cls(err, p), "msg", msg(err, p))
	case "newc":
		// a slot is created at most once: reserve it first
		x.mu.Lock()
		if x.cons[op.C] != nil || x.reserved[op.C] {
			x.mu.Unlock()
			return
		}
		x.reserved[op.C] = true
		x.mu.Unlock()
		ctl.Gate("drv.call")
		x.r.Call(g, "NewConsumer", "c", op.C)
		var err error
		var c bigbuff.Consumer
		p := safeCall(func() { c, err = x.b.NewConsumer() })
		if err == nil && p == "" {
			x.mu.Lock()
			if x.cons[op.C] == nil {
				x.cons[op.C] = c
			}
			x.mu.Unlock()
		}
		x.r.Ret(g, "NewConsumer", "r", cls(err, p), "msg", msg(err, p))
	case "get":
		c := x.con(op.C)
		if c == nil {
			return
		}
		ctl.Gate("drv.call")
		x.r.Call(g, "Get", "c", op.C, "ctx", op.Ctx)
		var err error
		var v interface{}
		p := safeCall(func() { v, err = c.Get(x.ctx(op.Ctx)) })
		if err != nil || p != "" {
			x.r.Ret(g, "Get", "r", cls(err, p), "msg", msg(err, p), "v", 0)
		} else {
			x.r.Ret(g, "Get", "r", "ok", "v", valCode(v))
		}
	case "commit":
		c := x.con(op.C)
		if c == nil {
			return
		}
		ctl.Gate("drv.call")
		x.r.Call(g, "Commit", "c", op.C)
		var err error
		p := safeCall(func() { err = c.Commit() })
		x.r.Ret(g, "Commit", "r", cls(err, p), "msg", msg(err, p))
	case "rollback":
		c := x.con(op.C)
		if c == nil {
			return
		}
		ctl.Gate("drv.call")
		x.r.Call(g, "Rollback", "c", op.C)
		var err error
		p := safeCall(func() { err = c.Rollback() })
		x.r.Ret(g, "Rollback", "r", cls(err, p), "msg", msg(err, p))
	case "close":
		c := x.con(op.C)
		if c == nil {
			return
		}
		ctl.Gate("drv.call")
		x.r.Call(g, "Close", "c", op.C)
		var err error
		p := safeCall(func() { err = c.Close() })
		doneClosed := false
		select {
		case <-c.Done():
			doneClosed = true
		default:
		}
		x.r.Ret(g, "Close", "r", cls(err, p), "msg", msg(err, p), "done", doneClosed)
	case "bclose":
		ctl.Gate("drv.call")
		x.r.Call(g, "BClose")
		var err error
		p := safeCall(func() { err = x.b.Close() })
		doneClosed := false
		select {
		case <-x.b.Done():
			doneClosed = true
		default:
		}
		x.r.Ret(g, "BClose", "r", cls(err, p), "msg", msg(err, p), "done", doneClosed)
	case "size":
		ctl.Gate("drv.call")
		x.r.Call(g, "Size")
		n := x.b.Size()
		x.r.Ret(g, "Size", "n", n)
	case "slice":
		ctl.Gate("drv.call")
		x.r.Call(g, "Slice")
		s := x.b.Slice()
		is := make([]int, len(s))
		for i, v := range s {
			is[i] = valCode(v)
		}
		x.r.Ret(g, "Slice", "s", is)
	case "diff":
		c := x.con(op.C)
		if c == nil {
			return
		}
		ctl.Gate("drv.call")
		x.r.Call(g, "Diff", "c", op.C)
		d, ok := x.b.Diff(c)
		x.r.Ret(g, "Diff", "d", d, "ok", ok)
	case "cancel":
		if op.Ctx <= 0 || op.Ctx >= len(x.cancels) {
			return
		}
		ctl.Gate("drv.call")
		x.r.Add(rec.Ev{"ev": "cancel", "g": g, "ctx": op.Ctx})
		x.cancels[op.Ctx]()
		x.r.Add(rec.Ev{"ev": "cancelled", "g": g, "ctx": op.Ctx})
	case "range":
		// package-level Range over a logging wrapper: at most N callbacks, then stop; M selects the last callback's behaviour
		c := x.con(op.C)
		if c == nil {
			return
		}
		lc := &loggingConsumer{x: x, g: g, slot: op.C, c: c, ctx: op.Ctx}
		x.r.Add(rec.Ev{"ev": "rbegin", "g": g, "c": op.C, "ctx": op.Ctx})
		var err error
		calls := 0
		p := safeCall(func() {
			err = bigbuff.Range(x.ctx(op.Ctx), lc, func(index int, value interface{}) bool {
				calls++
				iv := valCode(value)
				last := calls >= op.N
				out := "true"
				if last {
					out = "false"
					if op.M == "panic" {
						out = "panic"
					}
				}
				x.r.Add(rec.Ev{"ev": "cb", "g": g, "c": op.C, "index": index, "v": iv, "out": out})
				if out == "panic" {
					panic("cb-panic")
				}
				return !last
			})
		})
		x.r.Add(rec.Ev{"ev": "rend", "g": g, "c": op.C, "r": cls(err, p)})
	case "brange":
		c := x.con(op.C)
		if c == nil {
			return
		}
		ctl.Gate("drv.call")
		x.r.Call(g, "BRange", "c", op.C, "ctx", op.Ctx)
		var err error
		var seen []int
		p := safeCall(func() {
			err = x.b.Range(x.ctx(op.Ctx), c, func(index int, value interface{}) bool {
				iv := valCode(value)
				seen = append(seen, iv)
				// the callback takes a while: other goroutines may run (e.g. Put) before it returns
				for k := 0; k < 6; k++ {
					ctl.Gate("drv.cb")
				}
				x.r.Add(rec.Ev{"ev": "bcb", "g": g, "i": index})
				return true
			})
		})
		if seen == nil {
			seen = []int{}
		}
		x.r.Ret(g, "BRange", "r", cls(err, p), "msg", msg(err, p), "vs", seen)
	}
}

var statsMu sync.Mutex

func (x *bufExec) runOps(g string, ops []BOp) {
	ctl.Register(g)
	for _, op := range ops {
		statsMu.Lock()
		x.st.OpCounts[op.K+"_issued"]++
		statsMu.Unlock()
		x.do(g, op)
	}
	x.done.Add(1)
}

func (x *bufExec) spawn(g string, ops []BOp) {
	x.total.Add(1)
	go x.runOps(g, ops)
}

func (x *bufExec) driversDone() bool { return x.done.Load() == x.total.Load() }

// quiescentEvent logs the projected state at an exactly quiescent point.
func (x *bufExec) quiescentEvent(phase int, timedOut bool) {
	off, size, committed := bigbuff.VerifBufferState(x.b)
	pend := x.r.Pending()
	sort.Strings(pend)
	if pend == nil {
		pend = []string{}
	}
	// committed offsets by slot
	cm := map[string]int{}
	x.mu.Lock()
	for slot, c := range x.cons {
		if o, ok := committed[c]; ok {
			cm[fmt.Sprint(slot)] = o
		}
	}
	x.mu.Unlock()
	_ = cm
	x.r.Add(rec.Ev{"ev": "quiescent", "phase": phase, "size": size, "base": off, "pending": pend, "nreg": len(committed)})
}

func genBufScenario(rng *rand.Rand, profile string, mode string) *BScenario {
	if profile == "sustain" {
		// C04, bounded delay under sustained traffic (free-running only): one consumer keeps up with one producer, the
		// gaps are shorter than the cooldown, the burst lasts longer than cooldown + slack
		cool := []int{2000, 5000, 20000}[rng.Intn(3)]
		gap := []int{200, 400, 700}[rng.Intn(3)]
		n := int((time.Duration(cool)*time.Microsecond + sustainSlack + 300*time.Millisecond) / time.Millisecond)
		return &BScenario{Profile: profile, NCtx: 1, Cleaner: BCleaner{Kind: "default", CooldownUs: cool},
			Setup:   []BOp{{K: "newc", C: 1}},
			Drivers: [][]BOp{{{K: "burst", C: 1, N: n, GapUs: gap}}}}
	}
	if profile == "bulk" {
		// C01 with a large population (free-running only): one batch of well over a thousand values, a consumer that
		// commits almost all of it at once (one large shift), then the tail is read by it and by a consumer created
		// after the shift, and Slice() is compared
		n := 1100 + rng.Intn(500)
		tail := 1 + rng.Intn(12)
		ops := []BOp{}
		for i := 0; i < n-tail; i++ {
			ops = append(ops, BOp{K: "get", C: 1})
		}
		ops = append(ops, BOp{K: "commit", C: 1}, BOp{K: "nop", N: 2}, BOp{K: "size"}, BOp{K: "slice"}, BOp{K: "newc", C: 2})
		for i := 0; i < tail; i++ {
			ops = append(ops, BOp{K: "get", C: 1}, BOp{K: "get", C: 2})
		}
		ops = append(ops, BOp{K: "commit", C: 1}, BOp{K: "commit", C: 2}, BOp{K: "put", N: 3}, BOp{K: "get", C: 1}, BOp{K: "get", C: 2}, BOp{K: "slice"})
		return &BScenario{Profile: profile, NCtx: 1, Cleaner: BCleaner{Kind: "default", CooldownUs: []int{0, 300}[rng.Intn(2)]},
			Setup: []BOp{{K: "newc", C: 1}, {K: "put", N: n}}, Drivers: [][]BOp{ops}}
	}
	sc := &BScenario{Profile: profile}
	small := mode == "c"
	nd := 2 + rng.Intn(2)
	nops := 3 + rng.Intn(3)
	if !small {
		nd = 2 + rng.Intn(3)
		nops = 4 + rng.Intn(8)
	}
	ncons := 1 + rng.Intn(3)
	sc.NCtx = 1 + rng.Intn(2)
	// cleaner
	cool := []int{0, 0, 150, 400, 1500}
	sc.Cleaner = BCleaner{Kind: "default", CooldownUs: cool[rng.Intn(len(cool))]}
	wFixed := 0
	switch profile {
	case "retention", "reclaim":
		wFixed = 50
	case "fifo", "txn":
		wFixed = 15
	}
	if rng.Intn(100) < wFixed {
		mx := rng.Intn(4)
		sc.Cleaner.Kind, sc.Cleaner.Max, sc.Cleaner.Target = "fixed", mx, rng.Intn(mx+1)
		if profile == "retention" && rng.Intn(3) == 0 {
			// every max/target pair: also negative targets, targets beyond max, negative max
			sc.Cleaner.Max, sc.Cleaner.Target = rng.Intn(5)-1, rng.Intn(8)-3
		}
		if profile == "retention" && rng.Intn(6) == 0 {
			// a custom cleaner that answers a constant, possibly negative or far beyond the size
			sc.Cleaner.Kind, sc.Cleaner.Max, sc.Cleaner.Target = "const", []int{-2, 0, 1, 2, 9}[rng.Intn(5)], 0
		}
	}
	if profile == "reclaim" && rng.Intn(3) > 0 {
		sc.Cleaner.CooldownUs = []int{100, 300, 800}[rng.Intn(3)]
	}
	// op weights by profile
	type w struct {
		k string
		w int
	}
	var ws []w
	switch profile {
	case "txn":
		ws = []w{{"put", 25}, {"get", 30}, {"commit", 15}, {"rollback", 15}, {"newc", 5}, {"range", 8}, {"brange", 6}, {"diff", 3}, {"cancel", 2}, {"close", 2}}
	case "retention":
		ws = []w{{"put", 28}, {"get", 25}, {"commit", 14}, {"rollback", 8}, {"newc", 6}, {"size", 5}, {"slice", 6}, {"diff", 8}, {"close", 2}}
	case "reclaim":
		ws = []w{{"put", 25}, {"get", 30}, {"commit", 25}, {"rollback", 4}, {"newc", 5}, {"close", 8}, {"size", 3}}
	case "wake":
		ws = []w{{"put", 22}, {"get", 40}, {"commit", 8}, {"rollback", 5}, {"cancel", 10}, {"newc", 5}, {"close", 4}, {"bclose", 3}, {"diff", 4}, {"size", 2}}
	case "close":
		ws = []w{{"put", 15}, {"get", 25}, {"commit", 12}, {"rollback", 6}, {"cancel", 6}, {"newc", 8}, {"close", 14}, {"bclose", 9}, {"size", 2}, {"slice", 2}, {"diff", 4}}
	default: // fifo
		ws = []w{{"put", 30}, {"get", 35}, {"commit", 12}, {"rollback", 8}, {"newc", 8}, {"close", 3}, {"slice", 2}, {"diff", 2}}
	}
	tot := 0
	for _, e := range ws {
		tot += e.w
	}
	pick := func() string {
		r := rng.Intn(tot)
		for _, e := range ws {
			if r < e.w {
				return e.k
			}
			r -= e.w
		}
		return "put"
	}
	// property-driven shape for C12: Puts in flight while the buffer is closed, and the closer looks at the contents
	// at once: whatever it sees after Close has returned must not change any more, and no later Put may succeed
	if profile == "close" && rng.Intn(100) < 25 {
		sc.Drivers, sc.NCtx = nil, 1
		sc.Setup = []BOp{{K: "put", N: 1 + rng.Intn(2)}}
		if rng.Intn(2) == 0 {
			sc.Setup = append(sc.Setup, BOp{K: "newc", C: 1})
		}
		for d, np := 0, 2+rng.Intn(2); d < np; d++ {
			sc.Drivers = append(sc.Drivers, []BOp{{K: "nop", N: rng.Intn(8)}, {K: "put", N: 1 + rng.Intn(2)}, {K: "put", N: 1}})
		}
		sc.Drivers = append(sc.Drivers, []BOp{{K: "nop", N: rng.Intn(8)}, {K: "bclose"}, {K: "slice"}, {K: "size"}, {K: "nop", N: rng.Intn(6)}, {K: "slice"}})
		if len(sc.Setup) > 1 {
			sc.Drivers = append(sc.Drivers, []BOp{{K: "nop", N: rng.Intn(8)}, {K: "newc", C: 2}, {K: "get", C: 1, Ctx: 1}, {K: "rollback", C: 1}})
		}
		sc.Small = true
		return sc
	}
	// property-driven shape for C03 / C01: a consumer is created while the cleaner shifts the buffer (another consumer
	// commits at that moment): it starts at the oldest retained value, wherever the shift lands relative to its creation
	if (profile == "retention" || profile == "fifo") && rng.Intn(100) < 15 {
		sc.Drivers, sc.NCtx = nil, 1
		nv := 3 + rng.Intn(3)
		sc.Setup = []BOp{{K: "newc", C: 1}, {K: "put", N: nv}}
		var rd []BOp
		for i := 0; i < nv-1; i++ {
			rd = append(rd, BOp{K: "get", C: 1, Ctx: 1})
			if rng.Intn(2) == 0 {
				rd = append(rd, BOp{K: "commit", C: 1})
			}
		}
		rd = append(rd, BOp{K: "commit", C: 1})
		sc.Drivers = append(sc.Drivers, rd)
		for c := 2; c <= 2+rng.Intn(2); c++ {
			sc.Drivers = append(sc.Drivers, []BOp{{K: "nop", N: rng.Intn(10)}, {K: "newc", C: c}, {K: "get", C: c, Ctx: 1}, {K: "diff", C: c}, {K: "get", C: c, Ctx: 1}})
		}
		if rng.Intn(2) == 0 {
			sc.Drivers = append(sc.Drivers, []BOp{{K: "nop", N: rng.Intn(10)}, {K: "put", N: 1}})
		}
		sc.Small = true
		return sc
	}
	// property-driven shape for C03: after a forced trim one consumer has fallen behind while two others are still
	// active at different committed offsets; the cleaner is then evaluated many times (every Put wakes it; the order in
	// which it sees the consumers varies): what the slowest ACTIVE consumer has not committed must stay readable
	if profile == "retention" && rng.Intn(100) < 25 {
		mx := 4 + rng.Intn(3)
		tg := 2 + rng.Intn(2)
		sc.Cleaner = BCleaner{Kind: "fixed", Max: mx, Target: tg, CooldownUs: []int{0, 0, 150}[rng.Intn(3)]}
		sc.Drivers, sc.NCtx = nil, 1
		// (the roles are dealt to the consumers in every creation order: the cleaner sees them in map order)
		perm := rng.Perm(3)
		cf, cs, ci := perm[0]+1, perm[1]+1, perm[2]+1 // fast, slow, idle
		sc.Setup = []BOp{{K: "newc", C: 1}, {K: "newc", C: 2}, {K: "newc", C: 3}, {K: "put", N: mx}}
		fast := []BOp{}
		for i := 0; i < mx; i++ {
			fast = append(fast, BOp{K: "get", C: cf, Ctx: 1})
		}
		fast = append(fast, BOp{K: "commit", C: cf})
		slow := []BOp{}
		for i := 0; i < mx-1; i++ {
			slow = append(slow, BOp{K: "get", C: cs, Ctx: 1})
		}
		slow = append(slow, BOp{K: "commit", C: cs}, BOp{K: "get", C: cs, Ctx: 1}) // one more read, not committed
		// the third consumer commits nothing: the forced trim leaves its committed position behind; sometimes it has read
		// (without committing) up to beyond where the trim will land - its next value is then still retained
		sc.Setup = append(sc.Setup, fast...)
		sc.Setup = append(sc.Setup, slow...)
		straddle := rng.Intn(2) == 0
		if straddle {
			for i := 0; i < mx-rng.Intn(2); i++ {
				sc.Setup = append(sc.Setup, BOp{K: "get", C: ci, Ctx: 1})
			}
		}
		sc.Setup = append(sc.Setup, BOp{K: "put", N: 1}) // size > max: forced trim down to target
		pokes := []BOp{}
		for i := 0; i < 4+rng.Intn(5); i++ {
			pokes = append(pokes, BOp{K: "put", N: 0}, BOp{K: "nop", N: rng.Intn(3)})
		}
		sc.Drivers = append(sc.Drivers, pokes)
		sc.Drivers = append(sc.Drivers, []BOp{{K: "nop", N: rng.Intn(8)}, {K: "rollback", C: cs}, {K: "get", C: cs, Ctx: 1}, {K: "get", C: cs, Ctx: 1}, {K: "diff", C: cs}, {K: "size"}})
		last := []BOp{{K: "nop", N: rng.Intn(8)}, {K: "get", C: ci, Ctx: 1}, {K: "diff", C: ci}, {K: "get", C: cf, Ctx: 1}}
		if straddle {
			last = append(last, BOp{K: "get", C: ci, Ctx: 1}, BOp{K: "rollback", C: ci}, BOp{K: "get", C: ci, Ctx: 1})
		}
		sc.Drivers = append(sc.Drivers, last)
		sc.Small = true
		return sc
	}
	// property-driven shape for C01: Puts whose context is cancelled while they are on their way (after the context check,
	// queued on the buffer's lock, inside): a Put either fails and appends nothing, or appends and succeeds
	if profile == "fifo" && rng.Intn(100) < 25 {
		sc.Drivers, sc.NCtx = nil, 2
		sc.Setup = []BOp{{K: "newc", C: 1}}
		np := 2 + rng.Intn(2)
		for d := 0; d < np; d++ {
			sc.Drivers = append(sc.Drivers, []BOp{{K: "nop", N: rng.Intn(6)}, {K: "put", N: 1 + rng.Intn(2), Ctx: 1}, {K: "put", N: 1, Ctx: rng.Intn(2)}})
		}
		sc.Drivers = append(sc.Drivers, []BOp{{K: "nop", N: rng.Intn(12)}, {K: "cancel", Ctx: 1}})
		var reads []BOp
		for i := 0; i < 2*np+2; i++ {
			reads = append(reads, BOp{K: "get", C: 1, Ctx: 2})
		}
		sc.Drivers = append(sc.Drivers, append(reads, BOp{K: "slice"}))
		return sc
	}
	// property-driven shape for C04: a consumer commits reads that a forced trim has meanwhile overtaken (its committed
	// position was before the start of the buffer): the commit still is a state change the cleaner must look at
	if profile == "reclaim" && rng.Intn(100) < 15 {
		mx := 3 + rng.Intn(2)
		tg := 1 + rng.Intn(mx-1)
		sc.Cleaner = BCleaner{Kind: "fixed", Max: mx, Target: tg, CooldownUs: []int{0, 0, 200, 1000}[rng.Intn(4)]}
		sc.Drivers, sc.NCtx = nil, 1
		sc.Setup = []BOp{{K: "newc", C: 1}, {K: "put", N: mx}}
		var ops []BOp
		for i := 0; i < mx; i++ {
			ops = append(ops, BOp{K: "get", C: 1, Ctx: 1})
		}
		ops = append(ops, BOp{K: "put", N: 1 + rng.Intn(2)}, BOp{K: "nop", N: rng.Intn(6)}, BOp{K: "size"}, BOp{K: "commit", C: 1})
		sc.Drivers = append(sc.Drivers, ops)
		if rng.Intn(2) == 0 {
			sc.Setup = append(sc.Setup, BOp{K: "newc", C: 2})
			sc.Drivers = append(sc.Drivers, []BOp{{K: "nop", N: rng.Intn(8)}, {K: "get", C: 2, Ctx: 1}, {K: "commit", C: 2}, {K: "close", C: 2}})
		}
		sc.Small = true
		return sc
	}
	// property-driven shapes for reclamation (C04): the last state change is a commit while other consumers are
	// parked in Get, or the close of the slowest consumer while others stay open
	if profile == "reclaim" && rng.Intn(100) < 55 {
		k := 2 + rng.Intn(2)
		nv := 2 + rng.Intn(3)
		sc.Drivers = nil
		for c := 1; c <= k; c++ {
			sc.Setup = append(sc.Setup, BOp{K: "newc", C: c})
		}
		sc.Setup = append(sc.Setup, BOp{K: "put", N: nv})
		shape := rng.Intn(3)
		for c := 1; c <= k; c++ {
			var ops []BOp
			reads := nv
			if shape >= 1 && c == 1 {
				reads = rng.Intn(nv) // the slowest consumer reads less (maybe nothing)
			}
			// a consumer commits either once at the end or after every value: several commit rounds while the others are
			// parked change who has been waiting longest on the buffer's condition variable (cleaner or parked Get)
			stepwise := rng.Intn(2) == 0
			for i := 0; i < reads; i++ {
				ops = append(ops, BOp{K: "get", C: c, Ctx: 1})
				if stepwise && i < reads-1 {
					ops = append(ops, BOp{K: "commit", C: c})
				}
			}
			if reads > 0 {
				ops = append(ops, BOp{K: "commit", C: c})
			}
			switch {
			case shape >= 1 && c == 1:
				if shape == 1 {
					ops = append(ops, BOp{K: "close", C: c}) // closing the slowest consumer must release its hold
				} else {
					ops = append(ops, BOp{K: "size"})
				}
			case c < k || shape >= 1:
				ops = append(ops, BOp{K: "get", C: c, Ctx: 1}) // caught up: parks in Get
			}
			sc.Drivers = append(sc.Drivers, ops)
		}
		if rng.Intn(2) == 0 {
			sc.Drivers = append(sc.Drivers, []BOp{{K: "put", N: 1 + rng.Intn(2)}, {K: "size"}})
		}
		return sc
	}
	// property-driven shape for Buffer.Range (C02): values are Put while the iteration is going on, in particular while
	// the callback for the currently last value runs - Range must still visit them, and stop at the end instead of blocking
	if profile == "txn" && rng.Intn(100) < 30 {
		sc.Drivers = nil
		sc.NCtx = 1
		sc.Setup = []BOp{{K: "newc", C: 1}, {K: "put", N: 1 + rng.Intn(3)}}
		sc.Drivers = append(sc.Drivers, []BOp{{K: "brange", C: 1, Ctx: 0}, {K: "diff", C: 1}})
		for d := 1 + rng.Intn(2); d > 0; d-- {
			sc.Drivers = append(sc.Drivers, []BOp{{K: "nop", N: rng.Intn(14)}, {K: "put", N: 1 + rng.Intn(2)}})
		}
		sc.Small = true
		return sc
	}
	// property-driven shapes for wake-ups (C05): one or two Gets parked on an empty buffer (or about to park) while a
	// Put, a context cancellation, a consumer Close or a Buffer Close is placed somewhere around them
	if (profile == "wake" && rng.Intn(100) < 60) || (profile == "close" && rng.Intn(100) < 25) {
		ng := 1 + rng.Intn(2)
		sc.NCtx = 2
		sc.Drivers = nil
		for c := 1; c <= ng; c++ {
			sc.Setup = append(sc.Setup, BOp{K: "newc", C: c})
		}
		for c := 1; c <= ng; c++ {
			ops := []BOp{{K: "get", C: c, Ctx: c}}
			if rng.Intn(2) == 0 {
				ops = append(ops, BOp{K: "get", C: c, Ctx: c}) // the value a failed Get would have returned comes next
			}
			sc.Drivers = append(sc.Drivers, ops)
		}
		var wakers []BOp
		for c := 1; c <= ng; c++ {
			switch rng.Intn(10) {
			case 0, 1, 2, 3, 4, 5:
				wakers = append(wakers, BOp{K: "cancel", Ctx: c})
			case 6, 7:
				wakers = append(wakers, BOp{K: "put", N: 1 + rng.Intn(2), M: []string{"", "", "nil"}[rng.Intn(3)]})
			}
		}
		switch rng.Intn(6) {
		case 0:
			wakers = append(wakers, BOp{K: "bclose"})
		case 1:
			wakers = append(wakers, BOp{K: "put", N: 1, M: []string{"", "nil"}[rng.Intn(2)]})
		case 2:
			wakers = append(wakers, BOp{K: "close", C: 1})
		}
		rng.Shuffle(len(wakers), func(i, j int) { wakers[i], wakers[j] = wakers[j], wakers[i] })
		// one or two waker goroutines; every waker is preceded by a few pure scheduling points, which spread it in
		// (scheduling) time relative to the Gets
		groups := [][]BOp{wakers}
		if len(wakers) > 1 && rng.Intn(2) == 0 {
			groups = [][]BOp{wakers[:1], wakers[1:]}
		}
		for _, grp := range groups {
			var spaced []BOp
			for _, wk := range grp {
				if k := rng.Intn(10); k > 0 {
					spaced = append(spaced, BOp{K: "nop", N: k})
				}
				spaced = append(spaced, wk)
			}
			if len(spaced) > 0 {
				sc.Drivers = append(sc.Drivers, spaced)
			}
		}
		sc.Small = true
		return sc
	}
	// setup: usually create the first consumer and maybe put something
	if rng.Intn(4) > 0 {
		sc.Setup = append(sc.Setup, BOp{K: "newc", C: 1})
	}
	if rng.Intn(3) == 0 {
		sc.Setup = append(sc.Setup, BOp{K: "put", N: 1 + rng.Intn(2)})
	}
	ranger := rng.Intn(nd) // only one driver per scenario iterates with Range / Buffer.Range (keeps histories explainable quickly)
	for d := 0; d < nd; d++ {
		var ops []BOp
		for i := 0; i < nops; i++ {
			k := pick()
			for (k == "range" || k == "brange") && d != ranger {
				k = pick()
			}
			op := BOp{K: k}
			switch k {
			case "put":
				op.N = 1 + rng.Intn(3)
				if rng.Intn(8) == 0 {
					op.N = 0
				}
				if rng.Intn(6) == 0 {
					op.Ctx = 1 + rng.Intn(sc.NCtx)
				}
			case "get":
				op.C = 1 + rng.Intn(ncons)
				if rng.Intn(3) > 0 {
					op.Ctx = 1 + rng.Intn(sc.NCtx)
				}
			case "cancel":
				op.Ctx = 1 + rng.Intn(sc.NCtx)
			case "range":
				op.C = 1 + rng.Intn(ncons)
				op.N = 1 + rng.Intn(3)
				op.Ctx = 1 + rng.Intn(sc.NCtx)
				op.M = []string{"", "", "panic"}[rng.Intn(3)]
			case "brange":
				op.C = 1 + rng.Intn(ncons)
				op.Ctx = 1 + rng.Intn(sc.NCtx)
			default:
				op.C = 1 + rng.Intn(ncons)
			}
			if small && rng.Intn(4) == 0 {
				ops = append(ops, BOp{K: "nop", N: rng.Intn(6)})
			}
			ops = append(ops, op)
			if (profile == "reclaim" || profile == "retention") && small && rng.Intn(8) == 0 && !sc.setOnce {
				// (controlled mode only: with the many overlapping Puts of free-running programs a history with a cleaner
				// switch in the middle takes TLC minutes to explain)
				sc.setOnce = true // (one switch per scenario: several concurrent ones make the history expensive to explain)
				// the cleaner configuration is replaced while the buffer is in use
				cl := &BCleaner{Kind: "default"}
				if rng.Intn(3) > 0 {
					mx := rng.Intn(4)
					cl = &BCleaner{Kind: "fixed", Max: mx, Target: rng.Intn(mx + 1)}
				}
				ops = append(ops, BOp{K: "setcleaner", Cl: cl})
				if rng.Intn(4) == 0 {
					ops = append(ops, BOp{K: "badcleaner"})
				}
			}
		}
		sc.Drivers = append(sc.Drivers, ops)
	}
	return sc
}

func mkCleaner(c BCleaner) bigbuff.Cleaner {
	switch c.Kind {
	case "fixed":
		return bigbuff.FixedBufferCleaner(c.Max, c.Target, nil)
	case "const":
		k := c.Max
		return func(size int, offsets []int) int { return k }
	}
	return bigbuff.DefaultCleaner
}

// bufProgram turns a behaviour generated by TLC from BufferGEN.tla (one caller, calls in order, the first record is
// the cleaner configuration) into a scenario whose setup goroutine issues the calls one after the other
func bufProgram(line string) *BScenario {
	var calls []struct {
		K string `json:"k"`
		C int    `json:"c"`
		N int    `json:"n"`
	}
	if err := json.Unmarshal([]byte(line), &calls); err != nil {
		fatalf("bad program %q: %v", line, err)
	}
	sc := &BScenario{Profile: "gen", NCtx: 1, Cleaner: BCleaner{Kind: "default"}}
	for _, c := range calls {
		switch c.K {
		case "cleaner":
			if c.C >= 0 {
				sc.Cleaner = BCleaner{Kind: "fixed", Max: c.C, Target: c.N}
			}
		case "put":
			sc.Setup = append(sc.Setup, BOp{K: "put", N: c.N})
		default:
			sc.Setup = append(sc.Setup, BOp{K: c.K, C: c.C})
		}
	}
	return sc
}

// runBufExec executes one scenario; mode "c" (controlled) or "f" (free-running).
var bufDFS *sched.DFS // set while a scenario is being enumerated

func runBufExec(execID int, sc *BScenario, mode string, seed int64, strategy string, replay []string, st *Stats, confirm bool) (evs []rec.Ev, res sched.Result, infra string) {
	x := &bufExec{sc: sc, r: rec.New(), b: new(bigbuff.Buffer), cons: map[int]bigbuff.Consumer{}, reserved: map[int]bool{}, valSeq: map[string]int{}, st: st}
	x.execID, x.t0 = execID, time.Now()
	x.ctxs = make([]context.Context, sc.NCtx+1)
	x.cancels = make([]context.CancelFunc, sc.NCtx+1)
	for i := 1; i <= sc.NCtx; i++ {
		x.ctxs[i], x.cancels[i] = withCancelCause(context.Background())
	}
	x.r.Add(rec.Ev{"ev": "reset", "exec": execID, "cleaner": map[string]any{"kind": sc.Cleaner.Kind, "max": sc.Cleaner.Max, "target": sc.Cleaner.Target}, "mode": mode})
	cleaner := mkCleaner(sc.Cleaner)
	self := sched.Goid()
	before := map[int64]bool{}
	for _, g := range sched.Snapshot() {
		before[g.Gid] = true
	}
	opts := sched.Options{Seed: seed, Strategy: strategy, Replay: replay, PCTDepth: 3, IdleProb: 150, MaxSteps: 4000, DFS: bufDFS}
	ctl.OnHolders = nil
	if mode == "c" {
		if lockTrace {
			ctl.OnHolders = func(held []sched.Arrival) {
				hs := make([]map[string]any, len(held))
				for i, h := range held {
					hs[i] = map[string]any{"g": h.Role, "pt": h.Pt, "obj": h.Obj}
				}
				x.r.Add(rec.Ev{"ev": "locks", "held": hs})
			}
		}
		ctl.Begin(opts)
	} else {
		ctl.StartFree(seed, 4)
	}
	// the setup driver configures the buffer, runs the setup ops and then starts the drivers
	x.total.Add(1)
	go func() {
		ctl.Register("S")
		ctl.Gate("drv.call")
		if err := x.b.SetCleanerConfig(bigbuff.CleanerConfig{Cleaner: cleaner, Cooldown: time.Duration(sc.Cleaner.CooldownUs) * time.Microsecond}); err != nil {
			panic(err)
		}
		for _, op := range sc.Setup {
			x.do("S", op)
		}
		for i, ops := range sc.Drivers {
			x.spawn(fmt.Sprintf("D%d", i+1), ops)
		}
		x.done.Add(1)
	}()
	// waitTerminal runs until nothing can happen any more; returns whether drivers are still pending
	waitTerminal := func() (stuck bool) {
		if mode == "c" {
			r := ctl.Run(opts, x.driversDone)
			// cheap persistence re-check of the terminal configuration: nothing may move while we wait
			for r.Infra == "" && !r.Diverged {
				n := len(r.Steps)
				time.Sleep(500 * time.Microsecond)
				r = ctl.Run(opts, x.driversDone)
				if len(r.Steps) == n {
					break
				}
			}
			res.Steps, res.Choices = r.Steps, r.Choices
			res.Blocked = r.Blocked
			if r.Infra != "" {
				infra = r.Infra
			}
			if r.Diverged {
				res.Diverged = true
			}
			return r.Stuck
		}
		deadline := time.Now().Add(20 * time.Second)
		for {
			if q, _ := sched.FreeQuiescent(self); q {
				// confirm with a second snapshot
				runtime.Gosched()
				if q2, _ := sched.FreeQuiescent(self); q2 {
					return !x.driversDone()
				}
			}
			if time.Now().After(deadline) {
				infra = "free mode: no quiescence within 20s"
				return !x.driversDone()
			}
			time.Sleep(100 * time.Microsecond)
		}
	}
	persist := func() {
		// a stuck verdict is only believed when the identical configuration persists
		if confirm {
			time.Sleep(1 * time.Second)
		}
	}
	stuck := waitTerminal()
	if bufDFS != nil {
		bufDFS.Frozen = true // only the main phase is enumerated
	}
	if infra == "" && !res.Diverged {
		if stuck {
			persist()
			st.Stuck++
		}
		x.quiescentEvent(0, false)
		// epilogue 1: cancel every context
		x.spawn("E1", func() []BOp {
			var ops []BOp
			for i := 1; i <= sc.NCtx; i++ {
				ops = append(ops, BOp{K: "cancel", Ctx: i})
			}
			return ops
		}())
		stuck = waitTerminal()
	}
	if infra == "" && !res.Diverged {
		if stuck {
			persist()
		}
		x.quiescentEvent(1, false)
		// epilogue 2: roll back every consumer (so that closes can complete) and close the buffer, concurrently
		var rb []BOp
		x.mu.Lock()
		slots := make([]int, 0, len(x.cons))
		for s := range x.cons {
			slots = append(slots, s)
		}
		x.mu.Unlock()
		sort.Ints(slots)
		for _, s := range slots {
			rb = append(rb, BOp{K: "rollback", C: s})
		}
		x.spawn("E2", []BOp{{K: "bclose"}})
		x.spawn("E3", rb)
		stuck = waitTerminal()
	}
	if infra == "" && !res.Diverged {
		if stuck {
			persist()
		}
		x.quiescentEvent(2, false)
		// after-close behaviour (C12): later calls fail cleanly
		post := []BOp{{K: "put", N: 1}, {K: "newc", C: 99}, {K: "bclose"}, {K: "size"}, {K: "slice"}}
		x.mu.Lock()
		for s := range x.cons {
			post = append(post, BOp{K: "get", C: s}, BOp{K: "commit", C: s}, BOp{K: "close", C: s})
			break
		}
		x.mu.Unlock()
		x.spawn("E4", post)
		stuck = waitTerminal()
		x.quiescentEvent(3, false)
	}
	if mode == "c" {
		ctl.End()
	} else {
		ctl.Stop()
	}
	for i := 1; i <= sc.NCtx; i++ {
		x.cancels[i]()
	}
	// goroutine census: nothing of the library may be left (the cooldown timer goroutine removes itself)
	budget := 3 * time.Second
	if !x.driversDone() {
		budget = 100 * time.Millisecond // calls that never returned keep their goroutines for ever
	}
	left := sched.WaitGone(self, budget, func(g sched.GInfo) bool {
		return !before[g.Gid] && (libFrame(g) || strings.Contains(g.Stack, "verifharness."))
	})
	nlib := 0
	var leftDesc []string
	for _, g := range left {
		if libFrame(g) && !strings.Contains(g.Stack, "main.(*bufExec).runOps") {
			nlib++
			leftDesc = append(leftDesc, g.Top)
		}
	}
	allReturned := x.driversDone()
	if leftDesc == nil {
		leftDesc = []string{}
	}
	x.r.Add(rec.Ev{"ev": "final", "leaked": nlib, "returned": allReturned, "left": leftDesc})
	st.Leaks += nlib
	if len(left) > 0 && infra == "" {
		// goroutines of this execution are still alive: they could disturb the next execution
		if nlib == 0 || !allReturned {
			// drivers stuck (already reported through quiescent events) - cannot continue safely in this process
		}
	}
	runtime.GC()
	return x.r.Events(), res, infra
}

func schedHash(steps []sched.Step) string {
	h := sha1.New()
	for _, s := range steps {
		fmt.Fprintf(h, "%s@%s;", s.Role, s.Pt)
	}
	return hex.EncodeToString(h.Sum(nil))[:16]
}

func evHash(evs []rec.Ev) string {
	h := sha1.New()
	for _, e := range evs {
		fmt.Fprintf(h, "%v %v %v %v %v|", e["ev"], e["g"], e["op"], e["r"], e["v"])
	}
	return hex.EncodeToString(h.Sum(nil))[:16]
}

// cmdBuffer: harness buffer -mode c|f -profile P -seed S -n N -out DIR [-replay file]
func cmdBuffer(args map[string]string) {
	t0 := time.Now()
	mode := args["mode"]
	profile := args["profile"]
	seed := atoi64(args["seed"], 1)
	n := int(atoi64(args["n"], 100))
	out := args["out"]
	budget := time.Duration(atoi64(args["budget_s"], 0)) * time.Second
	os.MkdirAll(out, 0o755)
	st := newStats("buffer/"+profile, mode, seed)
	w, err := rec.NewWriter(filepath.Join(out, "trace.ndjson"))
	if err != nil {
		fatalf("%v", err)
	}
	if rp := args["replay"]; rp != "" {
		var ei ExecInfo
		b, err := os.ReadFile(rp)
		if err != nil {
			fatalf("%v", err)
		}
		if err := json.Unmarshal(b, &ei); err != nil {
			fatalf("%v", err)
		}
		sb, _ := json.Marshal(ei.Scenario)
		var sc BScenario
		json.Unmarshal(sb, &sc)
		strategy := "replay"
		if mode != "c" {
			strategy = ""
		}
		evs, res, infra := runBufExec(0, &sc, mode, ei.Seed, strategy, ei.Choices, st, true)
		if infra != "" {
			st.Infra = append(st.Infra, infra)
		}
		if res.Diverged {
			st.Infra = append(st.Infra, "replay diverged")
		}
		st.ExecIndex = append(st.ExecIndex, ExecInfo{Exec: 0, Line: 1, Seed: ei.Seed, Scenario: sc, Choices: res.Choices})
		w.WriteExec(evs)
		w.Close()
		st.Executions = 1
		st.Events = w.Lines
		st.write(out, t0)
		return
	}
	rng := rand.New(rand.NewSource(seed))
	strategies := []string{"hold", "random", "hold", "pct"}
	if args["locks"] == "1" {
		lockTrace = true
		strategies = []string{"holdlock", "holdlock", "random", "hold"}
	}
	var fixed *BScenario
	if sf := args["scenario"]; sf != "" {
		b, err := os.ReadFile(sf)
		if err != nil {
			fatalf("%v", err)
		}
		fixed = new(BScenario)
		if err := json.Unmarshal(b, fixed); err != nil {
			fatalf("%v", err)
		}
	}
	// -programs FILE: replay TLC-generated behaviours (BufferGEN.tla), one execution each
	var programs []string
	if pf := args["programs"]; pf != "" {
		b, err := os.ReadFile(pf)
		if err != nil {
			fatalf("%v", err)
		}
		for _, ln := range strings.Split(string(b), "\n") {
			if strings.TrimSpace(ln) != "" {
				programs = append(programs, ln)
			}
		}
		n = len(programs)
	}
	for i := 0; i < n; i++ {
		if budget > 0 && time.Since(t0) > budget {
			break
		}
		sc := genBufScenario(rng, profile, mode)
		if fixed != nil {
			sc = fixed
		}
		if programs != nil {
			sc = bufProgram(programs[i])
		}
		eseed := rng.Int63()
		// each scenario is run under a few different schedules in controlled mode
		reps := 1
		if mode == "c" {
			reps = 3
		}
		if programs != nil {
			reps = 1
		} else if mode == "c" && sc.Small {
			reps = 6 // property-driven shapes are small and cheap: more schedules each
		}
		dfsMax := int(atoi64(args["dfsmax"], 0))
		if mode == "c" && sc.Small && dfsMax > 0 {
			bufDFS = &sched.DFS{Bound: 2}
			reps = dfsMax
		}
		for k := 0; k < reps; k++ {
			strategy := strategies[(i+k)%len(strategies)]
			if fs := args["strategy"]; fs != "" {
				strategy = fs
			}
			if bufDFS != nil {
				if !bufDFS.Next() {
					st.OpCounts["dfs_exhausted"]++
					break
				}
				strategy = "dfs"
			}
			evs, res, infra := runBufExec(st.Executions, sc, mode, eseed+int64(k), strategy, nil, st, false)
			if infra != "" {
				st.Infra = append(st.Infra, fmt.Sprintf("exec %d: %s", st.Executions, infra))
				// the process state is no longer trustworthy
				w.Close()
				st.Events = w.Lines
				st.write(out, t0)
				fatalf("infrastructure failure: %s", infra)
			}
			line := w.Lines + 1
			w.WriteExec(evs)
			st.ExecIndex = append(st.ExecIndex, ExecInfo{Exec: st.Executions, Line: line, Seed: eseed + int64(k), Scenario: sc, Choices: res.Choices})
			st.Executions++
			st.Steps += len(res.Steps)
			for _, s := range res.Steps {
				st.Points[s.Pt]++
			}
			var h string
			if mode == "c" {
				h = schedHash(res.Steps)
			} else {
				h = evHash(evs)
			}
			if !st.schedHashes[h] {
				st.schedHashes[h] = true
				// non-trivial: at least two drivers had overlapping calls (a call event while another call is pending)
				if overlaps(evs) {
					st.Nontrivial++
				}
			}
			if len(st.Samples) < 2 {
				st.Samples = append(st.Samples, map[string]any{"scenario": sc, "events": len(evs), "steps": len(res.Steps), "first_events": headEvents(evs, 12)})
			}
		}
		if bufDFS != nil {
			st.OpCounts["dfs_scenarios"]++
			st.OpCounts["dfs_schedules"] += bufDFS.Schedules
			st.OpCounts["dfs_diverged"] += bufDFS.Diverged
			bufDFS = nil
		}
	}
	w.Close()
	st.Events = w.Lines
	st.write(out, t0)
}

func headEvents(evs []rec.Ev, n int) []rec.Ev {
	if len(evs) < n {
		n = len(evs)
	}
	return evs[:n]
}

func overlaps(evs []rec.Ev) bool {
	open := map[string]bool{}
	for _, e := range evs {
		g, _ := e["g"].(string)
		switch e["ev"] {
		case "call":
			if len(open) > 0 {
				return true
			}
			open[g] = true
		case "ret":
			delete(open, g)
		}
	}
	return false
}
