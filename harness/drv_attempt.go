package main

import (
	"context"
	"encoding/json"
	"math/rand"
	"strings"
	"time"

	"verifharness/rec"
	"verifharness/sched"

	bigbuff "github.com/joeycumines/go-bigbuff"
)

// AOp: receiver ops "recv" / "nop"; canceller ops "cancel" / "nop".
type AOp struct {
	K string `json:"k"`
	N int    `json:"n,omitempty"`
}

type AScenario struct {
	Count    int    `json:"count"`
	RateUs   int    `json:"rate_us"`
	RateNs   int    `json:"rate_ns,omitempty"` // when > 0: overrides RateUs (very small rates)
	Pre      bool   `json:"pre"`
	DLTicks  int    `json:"dl_ticks,omitempty"` // when > 0: the context has a deadline that falls half a tick after that many ticks
	Receiver []AOp  `json:"receiver"`
	Cancel   []AOp  `json:"cancel"`
	Profile  string `json:"profile"`
}

func genAttemptScenario(rng *rand.Rand, profile, mode string) any {
	if profile == "ts" {
		// timestamps: a prompt receiver draining the whole channel, at very small rates
		sc := &AScenario{Profile: profile, Count: 2 + rng.Intn(4), RateNs: []int{1, 10, 100, 1000, 10000}[rng.Intn(5)]}
		for i := 0; i <= sc.Count; i++ {
			sc.Receiver = append(sc.Receiver, AOp{K: "recv"})
		}
		return sc
	}
	if mode != "c" && rng.Intn(10) == 0 {
		// a context that ends by its deadline, between two ticks of a slow rate, with a prompt receiver: the channel is
		// closed when the context is done, not earlier (free-running only: real time)
		sc := &AScenario{Profile: profile, Count: 3 + rng.Intn(3), RateUs: 20000}
		sc.DLTicks = 1 + rng.Intn(sc.Count-2) // (the first value is there at once: count values take count-1 ticks)
		for i := 0; i <= sc.Count; i++ {
			sc.Receiver = append(sc.Receiver, AOp{K: "recv"})
		}
		return sc
	}
	sc := &AScenario{Profile: profile, Count: 1 + rng.Intn(4), RateUs: []int{100, 200, 400}[rng.Intn(3)], Pre: rng.Intn(8) == 0}
	if rng.Intn(5) == 0 {
		sc.RateNs = []int{1, 100, 10000}[rng.Intn(3)]
	}
	nrecv := rng.Intn(sc.Count + 3) // absent (0), partial, full, or more than count
	for i := 0; i < nrecv; i++ {
		if rng.Intn(2) == 0 {
			sc.Receiver = append(sc.Receiver, AOp{K: "nop", N: rng.Intn(12)}) // slow receiver
		}
		sc.Receiver = append(sc.Receiver, AOp{K: "recv"})
	}
	if rng.Intn(3) > 0 {
		sc.Cancel = []AOp{{K: "nop", N: rng.Intn(25)}, {K: "cancel"}}
	}
	return sc
}

func producerAlive() bool {
	for _, g := range sched.Snapshot() {
		if strings.Contains(g.Stack, "go-bigbuff.LinearAttempt.func1") {
			return true
		}
	}
	return false
}

func runAttemptExec(execID int, sci any, e *Env) []rec.Ev {
	sc := sci.(*AScenario)
	ctx, cancel := withCancelCause(context.Background())
	if sc.Pre {
		cancel()
		if execID%2 == 1 {
			// done by an expired deadline instead of a cancel: Err() is DeadlineExceeded, not Canceled
			var c2 context.CancelFunc
			ctx, c2 = context.WithDeadline(context.Background(), time.Now().Add(-time.Hour))
			defer c2()
		}
	}
	e.R.Add(rec.Ev{"ev": "reset", "exec": execID, "mode": e.Mode, "count": sc.Count, "pre": sc.Pre, "dl": sc.DLTicks > 0})
	var ch <-chan time.Time
	var last time.Time
	dlCancel := context.CancelFunc(func() {})
	defer func() { dlCancel() }()
	recvOne := func() (closed bool) {
		t, ok := <-ch
		if !ok {
			e.R.Add(rec.Ev{"ev": "closed", "done": ctx.Err() != nil})
			return true
		}
		e.R.Add(rec.Ev{"ev": "got", "tsok": !t.Before(last)})
		last = t
		return false
	}
	stop := make(chan struct{})
	if e.Mode != "c" {
		// free-running: the producer ticks for ever when nobody receives; "nothing new for a while" ends a phase
		lastLen, lastChange := 0, time.Now()
		idle := 3 * time.Millisecond
		if sc.DLTicks > 0 {
			idle = 50 * time.Millisecond // more than two ticks of the slow rate used with deadlines
		}
		e.FreeIdle = func() bool {
			if n := e.R.Len(); n != lastLen {
				lastLen, lastChange = n, time.Now()
				return false
			}
			return time.Since(lastChange) > idle
		}
	}
	e.Spawn("S", func(g string) {
		ctl.Gate("drv.call")
		rate := time.Duration(sc.RateUs) * time.Microsecond
		if sc.RateNs > 0 {
			rate = time.Duration(sc.RateNs)
		}
		if sc.DLTicks > 0 {
			ctx, dlCancel = context.WithDeadline(ctx, time.Now().Add(rate*time.Duration(sc.DLTicks)+rate/2))
		}
		p := safeCall(func() { ch = bigbuff.LinearAttempt(ctx, rate, sc.Count) })
		buffered := -1
		if ch != nil {
			buffered = len(ch)
		}
		e.R.Add(rec.Ev{"ev": "ret", "buffered": buffered, "panic": p != ""})
		if p != "" {
			return
		}
		e.Spawn("R", func(g string) {
			for _, op := range sc.Receiver {
				if op.K == "nop" {
					for i := 0; i <= op.N; i++ {
						ctl.Gate("drv.nop")
					}
					continue
				}
				ctl.Gate("drv.recv")
				// a receiver never blocks for ever in this harness: it gives up when told to stop
				select {
				case t, ok := <-ch:
					if !ok {
						// (the context's state is read after the close was seen: done then means done before, or
						// within the time it took to look)
						e.R.Add(rec.Ev{"ev": "closed", "done": ctx.Err() != nil})
						return
					}
					e.R.Add(rec.Ev{"ev": "got", "tsok": !t.Before(last)})
					last = t
				case <-stop:
					return
				}
			}
		})
		e.Spawn("X", func(g string) {
			for _, op := range sc.Cancel {
				if op.K == "nop" {
					for i := 0; i <= op.N; i++ {
						ctl.Gate("drv.nop")
					}
					continue
				}
				ctl.Gate("drv.call")
				e.R.Add(rec.Ev{"ev": "cancel"})
				cancel()
			}
		})
	})
	e.WaitTerminal()
	if e.Infra == "" && !e.Res.Diverged {
		if e.Mode == "c" {
			e.R.Add(rec.Ev{"ev": "quiescent", "phase": 0, "producer": producerAlive()})
		}
		close(stop)
		e.Spawn("E", func(g string) {
			ctl.Gate("drv.call")
			e.R.Add(rec.Ev{"ev": "cancel"})
			cancel()
			// drain: the channel is always closed in the end
			for i := 0; i < 10 && ch != nil; i++ {
				ctl.Gate("drv.recv")
				if recvOne() {
					break
				}
			}
		})
		e.WaitTerminal()
	}
	select {
	case <-stop:
	default:
		close(stop)
	}
	cancel()
	left := e.End(3*time.Second, harnessOrLib)
	nlib := 0
	for _, g := range left {
		if libFrame(g) && !containsSpawn(g) {
			nlib++
		}
	}
	e.R.Add(rec.Ev{"ev": "final", "leaked": nlib, "returned": e.DriversDone(), "producer": producerAlive()})
	return e.R.Events()
}

func cmdAttempt(args map[string]string) {
	runDriver(scenarioRunner{
		name: "attempt",
		gen:  genAttemptScenario,
		decode: func(b []byte) any {
			var sc AScenario
			json.Unmarshal(b, &sc)
			return &sc
		},
		run:   runAttemptExec,
		poll:  []string{"attempt."},
		reps:  4,
		small: func(sc any) bool { return true },
	}, args)
}
