package main

import (
	"context"
	"encoding/json"
	"fmt"
	"math"
	"math/rand"
	"runtime"
	"strings"
	"sync"
	"sync/atomic"
	"time"

	"verifharness/rec"

	bigbuff "github.com/joeycumines/go-bigbuff"
)

// XOp is one operation of an Exclusive program.
type XOp struct {
	K      string `json:"k"` // call release nop
	Key    string `json:"key,omitempty"`
	Fn     int    `json:"fn,omitempty"`    // function id (unique per call op)
	Mode   string `json:"mode,omitempty"`  // early | late | never : when the work function resolves
	Held   bool   `json:"held,omitempty"`  // the work function blocks until released
	Start  bool   `json:"start,omitempty"` // start-style call (no outcome)
	WaitUs int    `json:"wait_us,omitempty"`
	N      int    `json:"n,omitempty"`
	// Api: "" / "opts" CallWithOptions(Work + wrappers) | call callafter async afterasync start startafter (value-style functions)
	Api    string `json:"api,omitempty"`
	RateUs int    `json:"rate_us,omitempty"` // api opts: ExclusiveRateLimit(rlctx, rate)
	Fail   bool   `json:"fail,omitempty"`    // the function resolves with / returns an error
	Flip   bool   `json:"flip,omitempty"`    // api opts: the Work option is given after the wrappers
	// NegWait: the wait is one of the values that must be ignored (wait <= 0), incl. the extreme ones: 1 = -1ns, 2 = -1h,
	// 3 = math.MinInt64, 4 = math.MinInt64 + 1
	NegWait int `json:"neg_wait,omitempty"`
}

type XScenario struct {
	Drivers [][]XOp `json:"drivers"`
	Profile string  `json:"profile"`
	NFn     int     `json:"nfn"`
}

type xExec struct {
	e    *Env
	x    *bigbuff.Exclusive
	mu   sync.Mutex
	rel  map[int]chan struct{}
	exec atomic.Int32
	// context of every ExclusiveRateLimit of this execution
	rlctx    context.Context
	rlcancel context.CancelFunc
}

func execErr(e int) error { return fmt.Errorf("E%d", e) }

func (x *xExec) relCh(fn int) chan struct{} {
	x.mu.Lock()
	defer x.mu.Unlock()
	c, ok := x.rel[fn]
	if !ok {
		c = make(chan struct{})
		x.rel[fn] = c
	}
	return c
}

func (x *xExec) release(g string, fn int) {
	c := x.relCh(fn)
	ctl.Gate("drv.call")
	x.mu.Lock()
	select {
	case <-c:
	default:
		x.e.R.Add(rec.Ev{"ev": "release", "g": g, "fn": fn})
		close(c)
	}
	x.mu.Unlock()
}

// work returns the options that make up the work of a CallWithOptions call: the work function itself, an inner
// wrapper, optionally the rate limit, and an outer wrapper. The outer wrapper logs wstart / wend (so the interval
// includes what the rate limit adds), the inner wrapper logs wlayer (it must run inside the outer one: wrappers are
// applied left -> right = inner -> outer), the work function logs wresolved.
func (x *xExec) work(op XOp) []bigbuff.ExclusiveOption {
	c := x.relCh(op.Fn)
	r := x.e.R
	var e int // identity of the execution: set by the outer wrapper (a call's work is executed at most once)
	inner := func(resolve func(result interface{}, err error)) {
		res := func() {
			r.Add(rec.Ev{"ev": "wresolved", "e": e}) // logged before resolve: nobody can have seen the outcome yet
			if op.Fail {
				resolve(nil, execErr(e))
			} else {
				resolve(e, nil)
			}
		}
		ctl.Gate("drv.work.run")
		if op.Mode == "early" {
			res()
		}
		if op.Mode == "multi" {
			// resolve is called by three goroutines at the same instant, with different outcomes: exactly one of them
			// counts, every caller of this execution gets that one, and none of the calls panics
			r.Add(rec.Ev{"ev": "wresolved", "e": e})
			var start atomic.Bool
			var ready atomic.Int32
			var wg sync.WaitGroup
			panics := make([]string, 3)
			for k := 0; k < 3; k++ {
				wg.Add(1)
				go func(k int) {
					defer wg.Done()
					ready.Add(1)
					for !start.Load() {
					}
					panics[k] = safeCall(func() {
						if k == 1 {
							resolve(nil, execErr(e))
						} else {
							resolve(e, nil)
						}
					})
				}(k)
			}
			for ready.Load() < 3 {
				runtime.Gosched()
			}
			start.Store(true)
			wg.Wait()
			for _, p := range panics {
				if p != "" {
					r.Add(rec.Ev{"ev": "resolvepanic", "e": e, "msg": p})
				}
			}
		}
		if op.Held {
			ctl.Gate("drv.work.hold")
			<-c
		}
		ctl.Gate("drv.work.linger")
		if op.Mode == "late" {
			res()
		}
		ctl.Gate("drv.work.linger")
	}
	w1 := func(next bigbuff.WorkFunc) bigbuff.WorkFunc {
		return func(resolve func(result interface{}, err error)) {
			r.Add(rec.Ev{"ev": "wlayer", "e": e})
			next(resolve)
		}
	}
	w2 := func(next bigbuff.WorkFunc) bigbuff.WorkFunc {
		return func(resolve func(result interface{}, err error)) {
			e = int(x.exec.Add(1))
			r.Add(rec.Ev{"ev": "wstart", "e": e, "key": op.Key, "fn": op.Fn, "mode": op.Mode, "rate_us": op.RateUs, "fail": op.Fail})
			t0 := time.Now()
			next(resolve)
			d := time.Since(t0)
			r.Add(rec.Ev{"ev": "wend", "e": e, "dur_ns": d.Nanoseconds()})
		}
	}
	opts := []bigbuff.ExclusiveOption{bigbuff.ExclusiveWrapper(w1)}
	if op.RateUs > 0 {
		opts = append(opts, bigbuff.ExclusiveRateLimit(x.rlctx, time.Duration(op.RateUs)*time.Microsecond))
	}
	opts = append(opts, bigbuff.ExclusiveWrapper(w2))
	if op.Flip {
		return append(opts, bigbuff.ExclusiveWork(inner))
	}
	return append([]bigbuff.ExclusiveOption{bigbuff.ExclusiveWork(inner)}, opts...)
}

// value returns the function of a value-style call (Call, CallAfter, CallAsync, CallAfterAsync, Start, StartAfter): it
// resolves by returning
func (x *xExec) value(op XOp) func() (interface{}, error) {
	c := x.relCh(op.Fn)
	r := x.e.R
	return func() (interface{}, error) {
		e := int(x.exec.Add(1))
		r.Add(rec.Ev{"ev": "wstart", "e": e, "key": op.Key, "fn": op.Fn, "mode": "value", "rate_us": 0, "fail": op.Fail})
		ctl.Gate("drv.work.run")
		if op.Held {
			ctl.Gate("drv.work.hold")
			<-c
		}
		ctl.Gate("drv.work.linger")
		r.Add(rec.Ev{"ev": "wresolved", "e": e})
		r.Add(rec.Ev{"ev": "wend", "e": e, "dur_ns": 0})
		if op.Fail {
			return nil, execErr(e)
		}
		return e, nil
	}
}

func (x *xExec) do(g string, op XOp) {
	r := x.e.R
	switch op.K {
	case "nop":
		for i := 0; i <= op.N; i++ {
			ctl.Gate("drv.nop")
		}
	case "release":
		x.release(g, op.Fn)
	case "badcall":
		// a call without a work function panics (documented) and must leave nothing behind
		ctl.Gate("drv.call")
		var p string
		switch op.N % 3 {
		case 0:
			p = safeCall(func() { x.x.Call(op.Key, nil) })
		case 1:
			p = safeCall(func() { x.x.CallWithOptions(bigbuff.ExclusiveKey(op.Key)) })
		default:
			p = safeCall(func() { x.x.StartAfter(op.Key, nil, time.Millisecond) })
		}
		r.Add(rec.Ev{"ev": "badcall", "g": g, "key": op.Key, "panicked": p != ""})
	case "rlcancel":
		ctl.Gate("drv.call")
		r.Add(rec.Ev{"ev": "rlcancel", "g": g})
		x.rlcancel()
	case "call":
		ctl.Gate("drv.call")
		wait := time.Duration(op.WaitUs) * time.Microsecond
		switch op.NegWait {
		case 1:
			wait = -1
		case 2:
			wait = -time.Hour
		case 3:
			wait = time.Duration(math.MinInt64)
		case 4:
			wait = time.Duration(math.MinInt64 + 1)
		}
		start := op.Start || op.Api == "start" || op.Api == "startafter"
		mode := op.Mode
		if op.Api != "" && op.Api != "opts" {
			mode = "value"
		}
		r.Call(g, "Call", "key", op.Key, "fn", op.Fn, "start", start, "wait_us", op.WaitUs, "mode", mode, "api", op.Api)
		var out <-chan *bigbuff.ExclusiveOutcome
		var o *bigbuff.ExclusiveOutcome
		blocking := false
		p := safeCall(func() {
			switch op.Api {
			case "call":
				blocking = true
				v, err := x.x.Call(op.Key, x.value(op))
				o = &bigbuff.ExclusiveOutcome{Result: v, Error: err}
			case "callafter":
				blocking = true
				v, err := x.x.CallAfter(op.Key, x.value(op), wait)
				o = &bigbuff.ExclusiveOutcome{Result: v, Error: err}
			case "async":
				out = x.x.CallAsync(op.Key, x.value(op))
			case "afterasync":
				out = x.x.CallAfterAsync(op.Key, x.value(op), wait)
			case "start":
				x.x.Start(op.Key, x.value(op))
			case "startafter":
				x.x.StartAfter(op.Key, x.value(op), wait)
			default:
				out = x.x.CallWithOptions(append(x.work(op), bigbuff.ExclusiveKey(op.Key), bigbuff.ExclusiveWait(wait), bigbuff.ExclusiveStart(op.Start))...)
			}
		})
		if p != "" {
			r.Ret(g, "Call", "r", "panic", "msg", p, "e", 0, "closed", true)
			return
		}
		closed := true
		if !blocking {
			if out == nil {
				r.Ret(g, "Call", "r", "nil", "e", 0, "closed", true)
				return
			}
			ctl.Gate("drv.outcome.recv")
			o = <-out
			// the channel is closed after the outcome was sent: another receive yields nil (a channel that is never
			// closed leaves this call pending, which the quiescence / final checks report)
			ctl.Gate("drv.outcome.recv")
			o2, ok := <-out
			closed = o2 == nil && !ok
		}
		var e int
		switch {
		case o == nil:
			r.Ret(g, "Call", "r", "closed", "e", 0, "closed", closed)
		case o.Error != nil && strings.Contains(o.Error.Error(), "resolve not called"):
			r.Ret(g, "Call", "r", "notresolved", "e", 0, "closed", closed)
		case o.Error != nil && o.Result == nil && o.Error == context.Canceled:
			r.Ret(g, "Call", "r", "rlcancelled", "e", 0, "closed", closed)
		case o.Error != nil:
			if n, _ := fmt.Sscanf(o.Error.Error(), "E%d", &e); n == 1 && o.Result == nil {
				r.Ret(g, "Call", "r", "err", "e", e, "closed", closed)
			} else {
				r.Ret(g, "Call", "r", "other", "msg", o.Error.Error(), "e", 0, "closed", closed)
			}
		default:
			e, _ = o.Result.(int)
			r.Ret(g, "Call", "r", "ok", "e", e, "closed", closed)
		}
	}
}

func genExclScenario(rng *rand.Rand, profile, mode string) any {
	if profile == "stress" {
		// free-running only: long programs of back-to-back calls of every style on two keys, nothing held open: batches
		// form, hand over and dissolve thousands of times under real contention
		sc := &XScenario{Profile: profile}
		fn := 0
		for d, nd := 0, 3+rng.Intn(2); d < nd; d++ {
			var ops []XOp
			for i, n := 0, 80+rng.Intn(80); i < n; i++ {
				fn++
				op := XOp{K: "call", Key: []string{"a", "a", "b"}[rng.Intn(3)], Fn: fn, Mode: []string{"early", "late"}[rng.Intn(2)]}
				switch a := rng.Intn(8); {
				case a < 2:
					op.Flip = a == 0
					if rng.Intn(2) == 0 {
						op.Mode = "multi"
					}
				default:
					op.Api = []string{"call", "callafter", "async", "afterasync", "start", "startafter"}[a-2]
					if (op.Api == "callafter" || op.Api == "afterasync" || op.Api == "startafter") && rng.Intn(2) == 0 {
						op.WaitUs = 20
					}
				}
				ops = append(ops, op)
			}
			sc.Drivers = append(sc.Drivers, ops)
		}
		sc.NFn = fn
		return sc
	}
	sc := &XScenario{Profile: profile}
	nd := 2 + rng.Intn(3)
	nops := 1 + rng.Intn(3)
	if mode != "c" {
		nd, nops = 3+rng.Intn(3), 2+rng.Intn(4)
	}
	keys := []string{"a", "a", "b"}
	if profile == "keys" {
		keys = []string{"a", "b", "c"}
	}
	fn := 0
	var held []int
	for d := 0; d < nd; d++ {
		var ops []XOp
		for i := 0; i < nops; i++ {
			if rng.Intn(3) == 0 {
				ops = append(ops, XOp{K: "nop", N: rng.Intn(8)})
			}
			r := rng.Intn(100)
			if r < 15 && len(held) > 0 {
				ops = append(ops, XOp{K: "release", Fn: held[rng.Intn(len(held))]})
				continue
			}
			fn++
			op := XOp{K: "call", Key: keys[rng.Intn(len(keys))], Fn: fn, Mode: []string{"early", "late", "late", "never"}[rng.Intn(4)]}
			op.Start = rng.Intn(5) == 0
			if rng.Intn(4) == 0 {
				op.WaitUs = []int{100, 300, 800}[rng.Intn(3)]
			}
			if rng.Intn(3) == 0 {
				op.Held = true
				held = append(held, fn)
			}
			op.Fail = rng.Intn(5) == 0
			if rng.Intn(8) == 0 {
				op.WaitUs, op.NegWait = 0, 1+rng.Intn(4)
			}
			if rng.Intn(12) == 0 {
				ops = append(ops, XOp{K: "badcall", Key: keys[rng.Intn(len(keys))], N: rng.Intn(3)})
			}
			switch a := rng.Intn(10); {
			case a < 4:
				// CallWithOptions with wrappers; a third of them rate limited
				op.Flip = rng.Intn(2) == 0
				if rng.Intn(3) == 0 {
					op.RateUs = []int{200, 500, 1500}[rng.Intn(3)]
				}
				if op.Mode != "never" && rng.Intn(4) == 0 {
					op.Mode, op.Fail = "multi", false // several goroutines resolve at once, with different outcomes
				}
			default:
				op.Api = []string{"call", "callafter", "async", "afterasync", "start", "startafter"}[a-4]
				op.Start = false
				if op.Api == "call" || op.Api == "async" || op.Api == "start" {
					op.WaitUs, op.NegWait = 0, 0
				}
			}
			ops = append(ops, op)
			if op.RateUs > 0 && rng.Intn(4) == 0 {
				ops = append(ops, XOp{K: "rlcancel"})
			}
		}
		sc.Drivers = append(sc.Drivers, ops)
	}
	sc.NFn = fn
	return sc
}

func runExclExec(execID int, sci any, e *Env) []rec.Ev {
	sc := sci.(*XScenario)
	x := &xExec{e: e, x: new(bigbuff.Exclusive), rel: map[int]chan struct{}{}}
	x.rlctx, x.rlcancel = withCancelCause(context.Background())
	defer x.rlcancel()
	e.R.Add(rec.Ev{"ev": "reset", "exec": execID, "mode": e.Mode})
	for i, ops := range sc.Drivers {
		ops := ops
		e.Spawn(fmt.Sprintf("D%d", i+1), func(g string) {
			for _, op := range ops {
				x.do(g, op)
			}
		})
	}
	quiescent := func(phase int) {
		e.R.Add(rec.Ev{"ev": "quiescent", "phase": phase, "pending": e.Pending(), "keys": bigbuff.VerifExclusiveKeys(x.x)})
	}
	e.WaitTerminal()
	if e.Infra == "" && !e.Res.Diverged {
		quiescent(0)
		e.Spawn("E1", func(g string) {
			for fn := 1; fn <= sc.NFn; fn++ {
				x.release(g, fn)
			}
		})
		e.WaitTerminal()
		quiescent(1)
	}
	for fn := 1; fn <= sc.NFn; fn++ {
		c := x.relCh(fn)
		x.mu.Lock()
		select {
		case <-c:
		default:
			close(c)
		}
		x.mu.Unlock()
	}
	left := e.End(3*time.Second, harnessOrLib)
	nlib := 0
	for _, g := range left {
		if libFrame(g) && !containsSpawn(g) {
			nlib++
		}
	}
	e.R.Add(rec.Ev{"ev": "final", "leaked": nlib, "returned": e.DriversDone(), "keys": bigbuff.VerifExclusiveKeys(x.x)})
	e.St.Leaks += nlib
	return e.R.Events()
}

func cmdExclusive(args map[string]string) {
	runDriver(scenarioRunner{
		name: "exclusive",
		gen:  genExclScenario,
		decode: func(b []byte) any {
			var sc XScenario
			json.Unmarshal(b, &sc)
			return &sc
		},
		run:  runExclExec,
		reps: 4,
	}, args)
}
