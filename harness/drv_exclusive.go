package main

import (
	"encoding/json"
	"fmt"
	"math/rand"
	"strings"
	"sync"
	"sync/atomic"
	"time"

	"verifharness/rec"

	bigbuff "github.com/joeycumines/go-bigbuff"
)

// XOp is one operation of an Exclusive program.
type XOp struct {
	K      string `json:"k"` // call release nop
	Key    string `json:"key,omitempty"`
	Fn     int    `json:"fn,omitempty"`    // function id (unique per call op)
	Mode   string `json:"mode,omitempty"`  // early | late | never : when the work function resolves
	Held   bool   `json:"held,omitempty"`  // the work function blocks until released
	Start  bool   `json:"start,omitempty"` // start-style call (no outcome)
	WaitUs int    `json:"wait_us,omitempty"`
	N      int    `json:"n,omitempty"`
}

type XScenario struct {
	Drivers [][]XOp `json:"drivers"`
	Profile string  `json:"profile"`
	NFn     int     `json:"nfn"`
}

type xExec struct {
	e    *Env
	x    *bigbuff.Exclusive
	mu   sync.Mutex
	rel  map[int]chan struct{}
	exec atomic.Int32
}

func (x *xExec) relCh(fn int) chan struct{} {
	x.mu.Lock()
	defer x.mu.Unlock()
	c, ok := x.rel[fn]
	if !ok {
		c = make(chan struct{})
		x.rel[fn] = c
	}
	return c
}

func (x *xExec) release(g string, fn int) {
	c := x.relCh(fn)
	ctl.Gate("drv.call")
	x.mu.Lock()
	select {
	case <-c:
	default:
		x.e.R.Add(rec.Ev{"ev": "release", "g": g, "fn": fn})
		close(c)
	}
	x.mu.Unlock()
}

func (x *xExec) work(op XOp) bigbuff.WorkFunc {
	c := x.relCh(op.Fn)
	r := x.e.R
	return func(resolve func(result interface{}, err error)) {
		e := int(x.exec.Add(1))
		r.Add(rec.Ev{"ev": "wstart", "e": e, "key": op.Key, "fn": op.Fn, "mode": op.Mode})
		ctl.Gate("drv.work.run")
		if op.Mode == "early" {
			r.Add(rec.Ev{"ev": "wresolved", "e": e}) // logged before resolve: nobody can have seen the outcome yet
			resolve(e, nil)
		}
		if op.Held {
			ctl.Gate("drv.work.hold")
			<-c
		}
		ctl.Gate("drv.work.linger")
		if op.Mode == "late" {
			r.Add(rec.Ev{"ev": "wresolved", "e": e})
			resolve(e, nil)
		}
		ctl.Gate("drv.work.linger")
		r.Add(rec.Ev{"ev": "wend", "e": e})
	}
}

func (x *xExec) do(g string, op XOp) {
	r := x.e.R
	switch op.K {
	case "nop":
		for i := 0; i <= op.N; i++ {
			ctl.Gate("drv.nop")
		}
	case "release":
		x.release(g, op.Fn)
	case "call":
		ctl.Gate("drv.call")
		r.Call(g, "Call", "key", op.Key, "fn", op.Fn, "start", op.Start, "wait_us", op.WaitUs, "mode", op.Mode)
		var out <-chan *bigbuff.ExclusiveOutcome
		p := safeCall(func() {
			out = x.x.CallWithOptions(
				bigbuff.ExclusiveKey(op.Key),
				bigbuff.ExclusiveWork(x.work(op)),
				bigbuff.ExclusiveWait(time.Duration(op.WaitUs)*time.Microsecond),
				bigbuff.ExclusiveStart(op.Start),
			)
		})
		if p != "" {
			r.Ret(g, "Call", "r", "panic", "msg", p, "e", 0)
			return
		}
		if out == nil {
			r.Ret(g, "Call", "r", "nil", "e", 0)
			return
		}
		ctl.Gate("drv.outcome.recv")
		o := <-out
		switch {
		case o == nil:
			r.Ret(g, "Call", "r", "closed", "e", 0)
		case o.Error != nil && strings.Contains(o.Error.Error(), "resolve not called"):
			r.Ret(g, "Call", "r", "notresolved", "e", 0)
		case o.Error != nil:
			r.Ret(g, "Call", "r", "err", "msg", o.Error.Error(), "e", 0)
		default:
			e, _ := o.Result.(int)
			r.Ret(g, "Call", "r", "ok", "e", e)
		}
	}
}

func genExclScenario(rng *rand.Rand, profile, mode string) any {
	sc := &XScenario{Profile: profile}
	nd := 2 + rng.Intn(3)
	nops := 1 + rng.Intn(3)
	if mode != "c" {
		nd, nops = 3+rng.Intn(3), 2+rng.Intn(4)
	}
	keys := []string{"a", "a", "b"}
	if profile == "keys" {
		keys = []string{"a", "b", "c"}
	}
	fn := 0
	var held []int
	for d := 0; d < nd; d++ {
		var ops []XOp
		for i := 0; i < nops; i++ {
			if rng.Intn(3) == 0 {
				ops = append(ops, XOp{K: "nop", N: rng.Intn(8)})
			}
			r := rng.Intn(100)
			if r < 15 && len(held) > 0 {
				ops = append(ops, XOp{K: "release", Fn: held[rng.Intn(len(held))]})
				continue
			}
			fn++
			op := XOp{K: "call", Key: keys[rng.Intn(len(keys))], Fn: fn, Mode: []string{"early", "late", "late", "never"}[rng.Intn(4)]}
			op.Start = rng.Intn(5) == 0
			if rng.Intn(4) == 0 {
				op.WaitUs = []int{100, 300, 800}[rng.Intn(3)]
			}
			if rng.Intn(3) == 0 {
				op.Held = true
				held = append(held, fn)
			}
			ops = append(ops, op)
		}
		sc.Drivers = append(sc.Drivers, ops)
	}
	sc.NFn = fn
	return sc
}

func runExclExec(execID int, sci any, e *Env) []rec.Ev {
	sc := sci.(*XScenario)
	x := &xExec{e: e, x: new(bigbuff.Exclusive), rel: map[int]chan struct{}{}}
	e.R.Add(rec.Ev{"ev": "reset", "exec": execID, "mode": e.Mode})
	for i, ops := range sc.Drivers {
		ops := ops
		e.Spawn(fmt.Sprintf("D%d", i+1), func(g string) {
			for _, op := range ops {
				x.do(g, op)
			}
		})
	}
	quiescent := func(phase int) {
		e.R.Add(rec.Ev{"ev": "quiescent", "phase": phase, "pending": e.Pending(), "keys": bigbuff.VerifExclusiveKeys(x.x)})
	}
	e.WaitTerminal()
	if e.Infra == "" && !e.Res.Diverged {
		quiescent(0)
		e.Spawn("E1", func(g string) {
			for fn := 1; fn <= sc.NFn; fn++ {
				x.release(g, fn)
			}
		})
		e.WaitTerminal()
		quiescent(1)
	}
	for fn := 1; fn <= sc.NFn; fn++ {
		c := x.relCh(fn)
		x.mu.Lock()
		select {
		case <-c:
		default:
			close(c)
		}
		x.mu.Unlock()
	}
	left := e.End(3*time.Second, harnessOrLib)
	nlib := 0
	for _, g := range left {
		if libFrame(g) && !containsSpawn(g) {
			nlib++
		}
	}
	e.R.Add(rec.Ev{"ev": "final", "leaked": nlib, "returned": e.DriversDone(), "keys": bigbuff.VerifExclusiveKeys(x.x)})
	e.St.Leaks += nlib
	return e.R.Events()
}

func cmdExclusive(args map[string]string) {
	runDriver(scenarioRunner{
		name: "exclusive",
		gen:  genExclScenario,
		decode: func(b []byte) any {
			var sc XScenario
			json.Unmarshal(b, &sc)
			return &sc
		},
		run:  runExclExec,
		reps: 4,
	}, args)
}
