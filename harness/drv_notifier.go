package main

import (
	"context"
	"encoding/json"
	"fmt"
	"math/rand"
	"reflect"
	"sort"
	"strings"
	"sync"
	"sync/atomic"
	"time"

	"verifharness/rec"

	bigbuff "github.com/joeycumines/go-bigbuff"
)

// NOp is one operation of a Notifier program.
type NOp struct {
	K   string `json:"k"` // sub unsub pub recv cancel | subc (SubscribeCancel) cancelsub (call its cancel func)
	Key string `json:"key,omitempty"`
	T   int    `json:"t,omitempty"`
	Ctx int    `json:"ctx,omitempty"`
	VT  string `json:"vt,omitempty"` // int string nil
}

type NScenario struct {
	NCtx    int     `json:"nctx"`
	Setup   []NOp   `json:"setup"`
	Drivers [][]NOp `json:"drivers"`
	Profile string  `json:"profile"`
}

type notExec struct {
	e       *Env
	n       *bigbuff.Notifier
	targets []any // index 1..5
	ctxs    []context.Context
	cancels []context.CancelFunc
	stop    chan struct{}
	pubSeq  atomic.Int32
	mu      sync.Mutex
	subc    map[string]subcInfo // key/target -> SubscribeCancel registration
}

// context ids of the contexts SubscribeCancel derives: unique per process, so that a trace spec can tell them apart
var subcSeq atomic.Int32

type subcInfo struct {
	id     int // context id of the derived context (10, 11, ...)
	parent int
	cancel context.CancelFunc
}

func (x *notExec) ctx(i int) context.Context {
	if i <= 0 || i >= len(x.ctxs) {
		return nil
	}
	return x.ctxs[i]
}

// harnessInts is a named type whose underlying type is []int: a []int value is assignable to it although neither type is
// an interface and the two are not identical
type harnessInts []int

func fmtVal(v any) string {
	switch t := v.(type) {
	case nil:
		return "nil"
	case []int:
		if t == nil {
			return "nil"
		}
		return fmt.Sprintf("l%d", t[0])
	case harnessInts:
		if t == nil {
			return "nil"
		}
		return fmt.Sprintf("l%d", t[0])
	case func():
		if t == nil {
			return "nil"
		}
		return "?func"
	case int:
		return fmt.Sprintf("i%d", t)
	case string:
		return t
	case *int:
		if t == nil {
			return "nil"
		}
		return fmt.Sprintf("p%d", *t)
	}
	return fmt.Sprintf("?%v", v)
}

func (x *notExec) do(g string, op NOp) {
	r := x.e.R
	switch op.K {
	case "sub":
		ctl.Gate("drv.call")
		r.Call(g, "Sub", "key", op.Key, "t", op.T, "ctx", op.Ctx, "auto", false)
		p := safeCall(func() {
			if op.Ctx == 0 {
				x.n.Subscribe(op.Key, x.targets[op.T])
			} else {
				x.n.SubscribeContext(x.ctx(op.Ctx), op.Key, x.targets[op.T])
			}
		})
		r.Ret(g, "Sub", "r", cls(nil, p), "msg", p)
	case "subc":
		// SubscribeCancel: the library derives a context and unsubscribes by itself once it is cancelled
		k := fmt.Sprintf("%s/%d", op.Key, op.T)
		x.mu.Lock()
		if _, dup := x.subc[k]; dup {
			x.mu.Unlock()
			return
		}
		id := int(subcSeq.Add(1)) + 9
		x.subc[k] = subcInfo{id: id, parent: op.Ctx}
		x.mu.Unlock()
		ctl.Gate("drv.call")
		r.Call(g, "Sub", "key", op.Key, "t", op.T, "ctx", id, "auto", true, "parent", op.Ctx)
		var cancel context.CancelFunc
		p := safeCall(func() {
			var parent context.Context
			if op.Ctx != 0 {
				parent = x.ctx(op.Ctx)
			}
			cancel = x.n.SubscribeCancel(parent, op.Key, x.targets[op.T])
		})
		x.mu.Lock()
		if p == "" {
			x.subc[k] = subcInfo{id: id, parent: op.Ctx, cancel: cancel}
		} else {
			delete(x.subc, k)
		}
		x.mu.Unlock()
		r.Ret(g, "Sub", "r", cls(nil, p), "msg", p)
	case "cancelsub":
		k := fmt.Sprintf("%s/%d", op.Key, op.T)
		x.mu.Lock()
		info, ok := x.subc[k]
		x.mu.Unlock()
		if !ok || info.cancel == nil {
			return
		}
		ctl.Gate("drv.call")
		r.Add(rec.Ev{"ev": "cancel", "g": g, "ctx": info.id})
		info.cancel()
		r.Add(rec.Ev{"ev": "cancelled", "g": g, "ctx": info.id})
	case "unsub":
		ctl.Gate("drv.call")
		r.Call(g, "Unsub", "key", op.Key, "t", op.T)
		p := safeCall(func() { x.n.Unsubscribe(op.Key, x.targets[op.T]) })
		r.Ret(g, "Unsub", "r", cls(nil, p), "msg", p)
	case "pub":
		id := int(x.pubSeq.Add(1))
		var v any
		var vs string
		switch op.VT {
		case "int":
			v, vs = id, fmt.Sprintf("i%d", id)
		case "string":
			vs = fmt.Sprintf("s%d", id)
			v = vs
		case "slice":
			v, vs = []int{id}, fmt.Sprintf("l%d", id)
		default:
			v, vs = nil, "nil"
		}
		ctl.Gate("drv.call")
		r.Call(g, "Pub", "key", op.Key, "v", vs, "vt", op.VT, "ctx", op.Ctx, "id", id)
		p := safeCall(func() {
			if op.Ctx == 0 {
				x.n.Publish(op.Key, v)
			} else {
				x.n.PublishContext(x.ctx(op.Ctx), op.Key, v)
			}
		})
		r.Ret(g, "Pub", "r", cls(nil, p), "msg", p)
	case "recv":
		x.recv(g, op.T)
	case "cancel":
		if op.Ctx <= 0 || op.Ctx >= len(x.cancels) {
			return
		}
		ctl.Gate("drv.call")
		// (contexts SubscribeCancel derived from this one die with it: the trace spec works that out from the
		// "parent" field of the call records)
		r.Add(rec.Ev{"ev": "cancel", "g": g, "ctx": op.Ctx})
		x.cancels[op.Ctx]()
		r.Add(rec.Ev{"ev": "cancelled", "g": g, "ctx": op.Ctx})
	}
}

// recv performs one receive on target t (or returns when the harness stops receivers); reports whether it was stopped
// cancelSubcs calls the cancel function of every SubscribeCancel registration made so far
func (x *notExec) cancelSubcs(g string) {
	x.mu.Lock()
	var ks []string
	for k := range x.subc {
		ks = append(ks, k)
	}
	x.mu.Unlock()
	sort.Strings(ks)
	for _, k := range ks {
		var key string
		var t int
		fmt.Sscanf(strings.Replace(k, "/", " ", 1), "%s %d", &key, &t)
		x.do(g, NOp{K: "cancelsub", Key: key, T: t})
	}
}

func (x *notExec) recv(g string, t int) (stopped bool) {
	r := x.e.R
	ctl.Gate("drv.call")
	r.Call(g, "Recv", "t", t)
	// t = 0: receive from whichever target has something
	cases := []reflect.SelectCase{{Dir: reflect.SelectRecv, Chan: reflect.ValueOf(x.stop)}}
	if t != 0 {
		cases = append(cases, reflect.SelectCase{Dir: reflect.SelectRecv, Chan: reflect.ValueOf(x.targets[t])})
	} else {
		for k := 1; k <= 6; k++ {
			cases = append(cases, reflect.SelectCase{Dir: reflect.SelectRecv, Chan: reflect.ValueOf(x.targets[k])})
		}
	}
	i, v, _ := reflect.Select(cases)
	if i != 0 {
		from := t
		if t == 0 {
			from = i
		}
		r.Ret(g, "Recv", "r", "ok", "v", fmtVal(v.Interface()), "t", from)
		return false
	}
	r.Ret(g, "Recv", "r", "stop", "v", "", "t", t)
	return true
}

func genNotScenario(rng *rand.Rand, profile, mode string) any {
	sc := &NScenario{Profile: profile, NCtx: 2 + rng.Intn(2)}
	keys := []string{"a", "b"}
	vts := []string{"int", "string", "nil", "int", "slice"}
	// setup: a handful of subscriptions in random insertion order
	perm := rng.Perm(5)
	ns := 2 + rng.Intn(4)
	for i := 0; i < ns; i++ {
		op := NOp{K: "sub", Key: keys[rng.Intn(3)%2], T: perm[i%5] + 1 + (i/5)}
		if rng.Intn(2) == 0 {
			op.Ctx = 1 + rng.Intn(sc.NCtx)
		}
		sc.Setup = append(sc.Setup, op)
	}
	nd, nops := 3+rng.Intn(2), 3+rng.Intn(4)
	if mode != "c" {
		nd, nops = 3+rng.Intn(2), 4+rng.Intn(6)
	}
	for d := 0; d < nd; d++ {
		var ops []NOp
		role := d % 3 // 0 publisher, 1/2 receivers + membership
		for i := 0; i < nops; i++ {
			var op NOp
			r := rng.Intn(100)
			switch {
			case role == 0 && r < 70:
				op = NOp{K: "pub", Key: keys[rng.Intn(3)%2], VT: vts[rng.Intn(len(vts))]}
				if rng.Intn(5) == 0 {
					op.Key = "c"
				}
				if rng.Intn(3) == 0 {
					op.Ctx = 1 + rng.Intn(sc.NCtx)
				}
			case r < 60:
				op = NOp{K: "recv", T: 1 + rng.Intn(6)}
			case r < 72:
				op = NOp{K: "cancel", Ctx: 1 + rng.Intn(sc.NCtx)}
			case r < 80:
				op = NOp{K: "sub", Key: keys[rng.Intn(3)%2], T: 1 + rng.Intn(6)}
				if rng.Intn(2) == 0 {
					op.Ctx = 1 + rng.Intn(sc.NCtx)
				}
			case r < 86:
				// (its own key: the library's goroutine panics - and kills the process - when somebody else
				// unsubscribes a SubscribeCancel registration first, which is misuse, so "unsub" never touches it)
				op = NOp{K: "subc", Key: "c", T: 1 + rng.Intn(6)}
				if rng.Intn(2) == 0 {
					op.Ctx = 1 + rng.Intn(sc.NCtx)
				}
				ops = append(ops, op)
				op = NOp{K: "cancelsub", Key: op.Key, T: op.T}
				if role != 0 && rng.Intn(2) == 0 {
					// (publishers never block in a receive: they must be finished before the epilogue's drain)
					op = NOp{K: "recv", T: op.T}
				}
			default:
				op = NOp{K: "unsub", Key: keys[rng.Intn(3)%2], T: 1 + rng.Intn(6)}
			}
			ops = append(ops, op)
		}
		sc.Drivers = append(sc.Drivers, ops)
	}
	return sc
}

func runNotExec(execID int, sci any, e *Env) []rec.Ev {
	sc := sci.(*NScenario)
	x := &notExec{e: e, n: new(bigbuff.Notifier), stop: make(chan struct{}), subc: map[string]subcInfo{}}
	x.targets = []any{nil, make(chan int), make(chan any, 1), make(chan *int), make(chan string), make(chan harnessInts), make(chan func())}
	x.ctxs = make([]context.Context, sc.NCtx+1)
	x.cancels = make([]context.CancelFunc, sc.NCtx+1)
	for i := 1; i <= sc.NCtx; i++ {
		x.ctxs[i], x.cancels[i] = withCancelCause(context.Background())
	}
	e.R.Add(rec.Ev{"ev": "reset", "exec": execID, "mode": e.Mode})
	e.Spawn("S", func(g string) {
		for _, op := range sc.Setup {
			x.do(g, op)
		}
		for i, ops := range sc.Drivers {
			ops := ops
			e.Spawn(fmt.Sprintf("D%d", i+1), func(g string) {
				for _, op := range ops {
					x.do(g, op)
				}
			})
		}
	})
	quiescent := func(phase int) {
		e.R.Add(rec.Ev{"ev": "quiescent", "phase": phase, "exact": true, "pending": e.Pending()})
	}
	e.WaitTerminal()
	if e.Infra == "" && !e.Res.Diverged {
		quiescent(0)
		// epilogue 1: cancel every context: pending publishes drop their context-guarded targets / return
		e.Spawn("E1", func(g string) {
			for i := 1; i <= sc.NCtx; i++ {
				x.do(g, NOp{K: "cancel", Ctx: i})
			}
			x.cancelSubcs(g)
		})
		e.WaitTerminal()
	}
	if e.Infra == "" && !e.Res.Diverged {
		quiescent(1)
		// epilogue 2: receivers for every target so that publishes without a context can finish, and drain buffers
		e.Spawn("R", func(g string) {
			for i := 0; i < 200; i++ {
				if x.recv(g, 0) {
					return
				}
			}
		})
		e.WaitTerminal()
	}
	if e.Infra == "" && !e.Res.Diverged {
		quiescent(2)
		close(x.stop)
		e.WaitTerminal()
		quiescent(3)
	}
	if e.Infra == "" && !e.Res.Diverged {
		// epilogue 4: drivers that were blocked in a receive until the stop may have made SubscribeCancel
		// registrations after epilogue 1: every context handed to the library is cancelled before the census
		e.Spawn("E4", func(g string) { x.cancelSubcs(g) })
		e.WaitTerminal()
		quiescent(4)
	}
	select {
	case <-x.stop:
	default:
		close(x.stop)
	}
	for i := 1; i <= sc.NCtx; i++ {
		x.cancels[i]()
	}
	left := e.End(3*time.Second, harnessOrLib)
	nlib := 0
	for _, g := range left {
		if libFrame(g) && !containsSpawn(g) {
			nlib++
		}
	}
	e.St.Leaks += nlib
	_, nsubs := bigbuff.VerifNotifierSize(x.n)
	e.R.Add(rec.Ev{"ev": "final", "left": len(left), "leaked": nlib, "returned": e.DriversDone(), "nsubs": nsubs})
	return e.R.Events()
}

func cmdNotifier(args map[string]string) {
	runDriver(scenarioRunner{
		name: "notifier",
		gen:  genNotScenario,
		decode: func(b []byte) any {
			var sc NScenario
			json.Unmarshal(b, &sc)
			return &sc
		},
		run:  runNotExec,
		reps: 3,
	}, args)
}
