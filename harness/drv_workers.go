package main

import (
	"encoding/json"
	"errors"
	"fmt"
	"math/rand"
	"sync"
	"time"

	"verifharness/rec"

	bigbuff "github.com/joeycumines/go-bigbuff"
)

// WOp is one operation of a Workers program.
type WOp struct {
	K     string `json:"k"` // call release wait count
	ID    int    `json:"id,omitempty"`
	N     int    `json:"n,omitempty"`
	Gated bool   `json:"gated,omitempty"`
	Via   string `json:"via,omitempty"`    // call: "" Call | "wrap" Wrap(n, fn)() ; bad: which invalid use
	MinUs int    `json:"min_us,omitempty"` // call: the function is wrapped in MinDuration(min, fn)
}

type WScenario struct {
	Drivers [][]WOp `json:"drivers"`
	Profile string  `json:"profile"`
	NIDs    int     `json:"nids"`
}

type wrkExec struct {
	e   *Env
	w   *bigbuff.Workers
	mu  sync.Mutex
	rel map[int]chan struct{}
}

func (x *wrkExec) relCh(id int) chan struct{} {
	x.mu.Lock()
	defer x.mu.Unlock()
	c, ok := x.rel[id]
	if !ok {
		c = make(chan struct{})
		x.rel[id] = c
	}
	return c
}

func (x *wrkExec) release(g string, id int) {
	c := x.relCh(id)
	ctl.Gate("drv.call")
	x.mu.Lock()
	select {
	case <-c:
	default:
		x.e.R.Add(rec.Ev{"ev": "release", "g": g, "id": id})
		close(c)
	}
	x.mu.Unlock()
}

func (x *wrkExec) do(g string, op WOp) {
	r := x.e.R
	switch op.K {
	case "call":
		want := "ok"
		if op.ID%3 == 0 {
			want = "err"
		}
		c := x.relCh(op.ID)
		ctl.Gate("drv.call")
		r.Call(g, "Call", "id", op.ID, "n", op.N, "gated", op.Gated, "want", want)
		var v interface{}
		var err error
		fn := func() (interface{}, error) {
			r.Add(rec.Ev{"ev": "fnstart", "id": op.ID})
			if op.Gated {
				ctl.Gate("drv.fn.wait")
				<-c
			}
			ctl.Gate("drv.fn.end")
			r.Add(rec.Ev{"ev": "fnend", "id": op.ID})
			if want == "err" {
				return op.ID * 10, errors.New("e")
			}
			return op.ID * 10, nil
		}
		if op.MinUs > 0 {
			// MinDuration: the wrapped function takes at least the duration and passes value and error through
			inner := bigbuff.MinDuration(time.Duration(op.MinUs)*time.Microsecond, fn)
			fn = func() (interface{}, error) {
				t0 := time.Now()
				v, err := inner()
				r.Add(rec.Ev{"ev": "fnspan", "id": op.ID, "dur_ns": time.Since(t0).Nanoseconds(), "min_us": op.MinUs})
				return v, err
			}
		}
		p := safeCall(func() {
			if op.Via == "wrap" {
				v, err = x.w.Wrap(op.N, fn)()
			} else {
				v, err = x.w.Call(op.N, fn)
			}
		})
		iv, _ := v.(int)
		res := "ok"
		if p != "" {
			res = "panic"
		} else if err != nil {
			res = "err"
		}
		r.Ret(g, "Call", "r", res, "v", iv, "msg", p)
	case "bad":
		// invalid use must panic and must not have any effect
		ctl.Gate("drv.call")
		ran := false
		fn := func() (interface{}, error) { ran = true; return nil, nil }
		p := safeCall(func() {
			switch op.Via {
			case "call0":
				x.w.Call(0, fn)
			case "callneg":
				x.w.Call(-1, fn)
			case "callnil":
				x.w.Call(1, nil)
			case "wrap0":
				x.w.Wrap(0, fn)
			case "wrapnil":
				x.w.Wrap(2, nil)
			case "min0":
				bigbuff.MinDuration(0, fn)
			case "minnil":
				bigbuff.MinDuration(time.Millisecond, nil)
			}
		})
		r.Add(rec.Ev{"ev": "bad", "g": g, "via": op.Via, "panicked": p != "", "ran": ran})
	case "release":
		x.release(g, op.ID)
	case "wait":
		ctl.Gate("drv.call")
		r.Call(g, "Wait")
		p := safeCall(func() { x.w.Wait() })
		// controlled mode: nothing else runs between Wait's unlock and this line, so the worker count read here is
		// the count Wait returned with (-1 = not observed, in free-running mode)
		cnt, qlen := -1, -1
		if x.e.Mode == "c" {
			cnt, _, qlen = bigbuff.VerifWorkersState(x.w)
		}
		r.Ret(g, "Wait", "r", cls(nil, p), "msg", p, "count", cnt, "queue", qlen)
	case "count":
		ctl.Gate("drv.call")
		r.Call(g, "Count")
		n := -1
		p := safeCall(func() { n = x.w.Count() })
		cnt, qlen := -1, -1
		if x.e.Mode == "c" {
			cnt, _, qlen = bigbuff.VerifWorkersState(x.w)
		}
		r.Ret(g, "Count", "r", cls(nil, p), "n", n, "count", cnt, "queue", qlen)
	}
}

func genWrkScenario(rng *rand.Rand, profile, mode string) any {
	if profile == "stress" {
		// free-running only: long programs of back-to-back calls with small, changing counts and nothing gated: workers are
		// spawned and retire thousands of times under real contention
		sc := &WScenario{Profile: profile}
		id := 0
		for d, nd := 0, 3+rng.Intn(2); d < nd; d++ {
			var ops []WOp
			for i, n := 0, 60+rng.Intn(60); i < n; i++ {
				id++
				ops = append(ops, WOp{K: "call", ID: id, N: 1 + rng.Intn(3)})
				if rng.Intn(25) == 0 {
					ops = append(ops, WOp{K: "wait"})
				}
			}
			sc.Drivers = append(sc.Drivers, ops)
		}
		sc.NIDs = id + 2
		return sc
	}
	sc := &WScenario{Profile: profile}
	nd, nops := 2+rng.Intn(3), 2+rng.Intn(3)
	if mode != "c" {
		nd, nops = 3+rng.Intn(3), 3+rng.Intn(5)
	}
	id := 0
	if rng.Intn(100) < 40 {
		// shape: Wait (and Count) racing the exit of the last worker and the arrival of new calls
		sc.Drivers = [][]WOp{
			{{K: "call", ID: 1, N: 1 + rng.Intn(2), Gated: true}},
			{{K: "nop", N: rng.Intn(6)}, {K: "wait"}, {K: "count"}},
			{{K: "nop", N: rng.Intn(8)}, {K: "release", ID: 1}},
			{{K: "nop", N: rng.Intn(10)}, {K: "call", ID: 2, N: 1 + rng.Intn(2), Gated: rng.Intn(2) == 0}},
		}
		if rng.Intn(2) == 0 {
			sc.Drivers = append(sc.Drivers, []WOp{{K: "nop", N: rng.Intn(6)}, {K: "wait"}})
		}
		if rng.Intn(2) == 0 {
			sc.Drivers = append(sc.Drivers, []WOp{{K: "nop", N: rng.Intn(10)}, {K: "call", ID: 3, N: 1, Gated: false}, {K: "release", ID: 2}})
		}
		sc.NIDs = 5
		return sc
	}
	for d := 0; d < nd; d++ {
		var ops []WOp
		for i := 0; i < nops; i++ {
			r := rng.Intn(100)
			switch {
			case r < 62:
				id++
				op := WOp{K: "call", ID: id, N: 1 + rng.Intn(3), Gated: rng.Intn(2) == 0}
				if rng.Intn(3) == 0 {
					op.Via = "wrap"
				}
				if rng.Intn(5) == 0 {
					op.MinUs = []int{100, 400, 1000}[rng.Intn(3)]
				}
				ops = append(ops, op)
				if rng.Intn(12) == 0 {
					ops = append(ops, WOp{K: "bad", Via: []string{"call0", "callneg", "callnil", "wrap0", "wrapnil", "min0", "minnil"}[rng.Intn(7)]})
				}
			case r < 82 && id > 0:
				ops = append(ops, WOp{K: "release", ID: 1 + rng.Intn(id+2)})
			case r < 90:
				ops = append(ops, WOp{K: "count"})
			default:
				ops = append(ops, WOp{K: "wait"})
			}
		}
		sc.Drivers = append(sc.Drivers, ops)
	}
	sc.NIDs = id + 2
	return sc
}

func runWrkExec(execID int, sci any, e *Env) []rec.Ev {
	sc := sci.(*WScenario)
	x := &wrkExec{e: e, w: new(bigbuff.Workers), rel: map[int]chan struct{}{}}
	e.R.Add(rec.Ev{"ev": "reset", "exec": execID, "mode": e.Mode})
	for i, ops := range sc.Drivers {
		ops := ops
		e.Spawn(fmt.Sprintf("D%d", i+1), func(g string) {
			for _, op := range ops {
				x.do(g, op)
			}
		})
	}
	quiescent := func(phase int) {
		c, _, q := bigbuff.VerifWorkersState(x.w)
		e.R.Add(rec.Ev{"ev": "quiescent", "phase": phase, "pending": e.Pending(), "count": c, "queue": q})
	}
	e.WaitTerminal()
	if e.Infra == "" && !e.Res.Diverged {
		quiescent(0)
		e.Spawn("E1", func(g string) {
			for id := 1; id <= sc.NIDs; id++ {
				x.release(g, id)
			}
		})
		e.WaitTerminal()
	}
	if e.Infra == "" && !e.Res.Diverged {
		quiescent(1)
		e.Spawn("E2", func(g string) {
			x.do(g, WOp{K: "wait"})
			x.do(g, WOp{K: "count"})
		})
		e.WaitTerminal()
		quiescent(2)
	}
	for id := 1; id <= sc.NIDs; id++ {
		c := x.relCh(id)
		x.mu.Lock()
		select {
		case <-c:
		default:
			close(c)
		}
		x.mu.Unlock()
	}
	left := e.End(3*time.Second, harnessOrLib)
	nlib := 0
	for _, g := range left {
		if libFrame(g) && !containsSpawn(g) {
			nlib++
		}
	}
	e.R.Add(rec.Ev{"ev": "final", "leaked": nlib, "returned": e.DriversDone()})
	e.St.Leaks += nlib
	return e.R.Events()
}

func cmdWorkers(args map[string]string) {
	runDriver(scenarioRunner{
		name: "workers",
		gen:  genWrkScenario,
		decode: func(b []byte) any {
			var sc WScenario
			json.Unmarshal(b, &sc)
			return &sc
		},
		run:   runWrkExec,
		reps:  4,
		small: func(sc any) bool { return true },
	}, args)
}
