// Package sched is the gate controller: in controlled mode every goroutine that reaches a hook point reports to the
// controller and blocks; the controller releases exactly one goroutine at a time and waits for exact quiescence (an
// atomic runtime.Stack(all) snapshot in which every other goroutine is blocked) before choosing the next one.
// In free mode the hooks are passive and only perturb the schedule (yields) and maintain nothing else.
package sched

import (
	"bytes"
	"fmt"
	"math/rand"
	"runtime"
	"runtime/debug"
	"sort"
	"strconv"
	"strings"
	"sync"
	"sync/atomic"
	"time"
)

const (
	ModeOff  int32 = 0
	ModeFree int32 = 1
	ModeCtl  int32 = 2
)

// Arrival is one goroutine parked at a gate.
type Arrival struct {
	Gid     int64
	Role    string
	Pt      string
	Obj     int
	N       int
	release chan struct{}
}

// Step is one scheduling decision that was taken.
type Step struct {
	Role string `json:"g"`
	Pt   string `json:"pt"`
	Obj  int    `json:"obj,omitempty"`
	N    int    `json:"n,omitempty"`
}

// Ctl is the controller. One instance per process.
type Ctl struct {
	mode     atomic.Int32
	arrivals chan *Arrival
	off      atomic.Pointer[chan struct{}] // closed when controlled mode ends: goroutines parked at gates are let through

	mu      sync.Mutex
	roles   map[int64]string // gid -> role
	roleSeq map[string]int   // base name -> count
	objs    map[any]int
	selfGid int64

	// controlled-execution state (only touched by the controller goroutine)
	gated    map[int64]*Arrival
	timed    map[int64]bool
	Steps    []Step
	Choices  []string
	rng      *rand.Rand
	prio     map[string]int // PCT priorities by role
	pctAt    map[int]bool
	strategy string
	replay   []string
	spinCnt  map[string]int
	ignore   map[int64]bool    // goroutines that existed before this execution began (left over by an abandoned one)
	held     map[*Arrival]bool // strategy "hold": arrivals at cond-wait gates that are being held back
	decided  map[*Arrival]bool
	dfs      *DFS
	dfsPre   int    // preemptions so far in this execution
	lastRole string // role released last

	freeYield atomic.Int32 // in free mode: 1-in-N chance to yield at a hook
	freeSeed  atomic.Int64

	OnStep func(s Step) // optional: called for every scheduling decision, just before the chosen goroutine is released
	// OnHolders, when set, is called at every quiescent point at which two or more goroutines are parked at gates
	// that lie inside critical sections (".locked", ".rlocked", ".bcast", ".wait" points)
	OnHolders func(held []Arrival)
	Log       func(format string, args ...any)
}

func New() *Ctl {
	c := &Ctl{
		arrivals: make(chan *Arrival, 4096),
		roles:    map[int64]string{},
		roleSeq:  map[string]int{},
		objs:     map[any]int{},
	}
	return c
}

func (c *Ctl) Mode() int32 { return c.mode.Load() }

// Goid returns the current goroutine's id.
func Goid() int64 {
	var buf [64]byte
	n := runtime.Stack(buf[:], false)
	// "goroutine 123 ["
	s := buf[10:n]
	i := bytes.IndexByte(s, ' ')
	id, _ := strconv.ParseInt(string(s[:i]), 10, 64)
	return id
}

// ObjID maps a pointer-ish object to a small stable integer (per execution).
func (c *Ctl) ObjID(obj any) int {
	if obj == nil {
		return 0
	}
	defer func() { recover() }() // unhashable
	c.mu.Lock()
	defer c.mu.Unlock()
	if id, ok := c.objs[obj]; ok {
		return id
	}
	id := len(c.objs) + 1
	c.objs[obj] = id
	return id
}

// Hook is installed as the library's verification hook.
func (c *Ctl) Hook(pt string, obj any, n int) {
	switch c.mode.Load() {
	case ModeOff:
		return
	case ModeFree:
		if len(pt) > 4 && pt[len(pt)-4:len(pt)-1] == ".tw" {
			freeTimedHook(pt)
		}
		if y := c.freeYield.Load(); y > 0 {
			// cheap xorshift on a shared seed; races are harmless (only perturbation)
			s := c.freeSeed.Add(0x9E3779B97F4A7C15 >> 1)
			s ^= s >> 13
			s *= 0x2545F4914F6CDD1D >> 1
			if v := int32(uint64(s)>>33) % y; v == 0 {
				runtime.Gosched()
			} else if v == 1 {
				// the perturbation sleep is itself a timed wait: account for it so that it is never mistaken for quiescence
				freeTimed.Add(1)
				time.Sleep(time.Duration(uint64(s)>>40%50) * time.Microsecond)
				freeTimed.Add(-1)
			}
		}
		return
	}
	c.gate(pt, c.ObjID(obj), n)
}

// Gate is a hook point for harness (driver) code.
func (c *Ctl) Gate(pt string) {
	if c.mode.Load() == ModeCtl {
		c.gate(pt, 0, 0)
	}
}

func (c *Ctl) gate(pt string, obj, n int) {
	gid := Goid()
	if gid == c.selfGid {
		return // the controller itself never gates
	}
	a := &Arrival{Gid: gid, Pt: pt, Obj: obj, N: n, release: make(chan struct{})}
	c.mu.Lock()
	role, ok := c.roles[gid]
	if !ok {
		base := "lib:" + pt
		c.roleSeq[base]++
		role = base + "#" + strconv.Itoa(c.roleSeq[base])
		c.roles[gid] = role
	}
	c.mu.Unlock()
	a.Role = role
	offp := c.off.Load()
	if offp == nil || c.mode.Load() != ModeCtl {
		return
	}
	select {
	case c.arrivals <- a:
	case <-*offp:
		return
	}
	select {
	case <-a.release:
	case <-*offp: // controlled mode ended while we were parked (or about to park): pass through
	}
}

// Register names the calling goroutine (drivers).
func (c *Ctl) Register(role string) {
	gid := Goid()
	c.mu.Lock()
	c.roles[gid] = role
	c.mu.Unlock()
}

// ---------------------------------------------------------------------------------------------------------------
// quiescence detection

var blockedStates = map[string]bool{
	"chan receive": true, "chan send": true, "select": true, "sync.Mutex.Lock": true,
	"sync.RWMutex.RLock": true, "sync.RWMutex.Lock": true, "sync.Cond.Wait": true, "sleep": true,
	"select (no cases)": true, "chan receive (nil chan)": true, "chan send (nil chan)": true,
	"sync.WaitGroup.Wait": true,
}

// GInfo is one goroutine from a snapshot.
type GInfo struct {
	Gid     int64
	State   string
	Top     string // top frame function
	Stack   string
	Blocked bool
}

var stackBuf = make([]byte, 1<<20)

// Snapshot takes an atomic snapshot of all goroutines.
func Snapshot() []GInfo {
	for {
		n := runtime.Stack(stackBuf, true)
		if n < len(stackBuf) {
			return parseStacks(stackBuf[:n])
		}
		stackBuf = make([]byte, 2*len(stackBuf))
	}
}

func parseStacks(b []byte) []GInfo {
	var out []GInfo
	for _, blk := range bytes.Split(b, []byte("\n\n")) {
		if !bytes.HasPrefix(blk, []byte("goroutine ")) {
			continue
		}
		nl := bytes.IndexByte(blk, '\n')
		hdr := string(blk)
		rest := ""
		if nl >= 0 {
			hdr = string(blk[:nl])
			rest = string(blk[nl+1:])
		}
		// goroutine 12 [chan receive, 2 minutes]:
		i := strings.IndexByte(hdr, '[')
		j := strings.LastIndexByte(hdr, ']')
		if i < 0 || j < i {
			continue
		}
		gid, _ := strconv.ParseInt(strings.TrimSpace(hdr[10:i]), 10, 64)
		st := hdr[i+1 : j]
		if k := strings.Index(st, ","); k >= 0 {
			st = st[:k]
		}
		top := rest
		if k := strings.IndexByte(top, '\n'); k >= 0 {
			top = top[:k]
		}
		if k := strings.LastIndexByte(top, '('); k >= 0 {
			top = top[:k]
		}
		g := GInfo{Gid: gid, State: st, Top: top, Stack: rest}
		g.Blocked = blockedStates[st] || (st == "semacquire" && strings.HasPrefix(top, "sync.runtime_Semacquire"))
		out = append(out, g)
	}
	return out
}

// quiesce waits until every goroutine other than the controller is blocked, then drains arrivals.
// It returns the snapshot. ok=false means the budget was exhausted (infrastructure problem or a livelock).
func (c *Ctl) quiesce(budget time.Duration) (snap []GInfo, ok bool) {
	deadline := time.Now().Add(budget)
	spins := 0
	for {
		// give released goroutines a chance to run
		if spins < 3 {
			runtime.Gosched()
		} else {
			time.Sleep(time.Duration(min(spins, 50)) * 5 * time.Microsecond)
		}
		spins++
		snap = Snapshot()
		all := true
		for i := range snap {
			if snap[i].Gid == c.selfGid || c.ignore[snap[i].Gid] {
				continue
			}
			if !snap[i].Blocked {
				all = false
				break
			}
		}
		if all {
			c.drain()
			return snap, true
		}
		if time.Now().After(deadline) {
			c.drain()
			return snap, false
		}
	}
}

func (c *Ctl) drain() {
	for {
		select {
		case a := <-c.arrivals:
			if c.ignore[a.Gid] {
				continue // a leftover of an earlier execution: it stays parked at its gate for ever
			}
			c.gated[a.Gid] = a
			if strings.HasSuffix(a.Pt, ".tw1") {
				delete(c.timed, a.Gid)
			}
		default:
			return
		}
	}
}

// ---------------------------------------------------------------------------------------------------------------
// controlled execution

// Options for one controlled execution.
type Options struct {
	Seed     int64
	Strategy string   // "random" | "pct" | "replay"
	PCTDepth int      // number of priority change points
	Replay   []string // roles to release, in order ("~idle" = let time pass)
	MaxSteps int
	// IdleProb is the probability (in 1/1000) of letting time pass when both gated and timed goroutines exist.
	IdleProb int
	Budget   time.Duration // per-step quiescence budget
	// PollPrefixes: gate points (by prefix) that belong to polling loops of the library (ticker driven re-checks).
	// When only goroutines inside such loops have moved for several complete rounds, the configuration cannot
	// change any more (every poller re-evaluated the unchanged state) and the execution is terminal.
	PollPrefixes []string
	DFS          *DFS // strategy "dfs"
}

// DFS is the state of a preemption-bounded depth-first enumeration of gate schedules, kept across the executions of
// one scenario. A preemption is a switch away from a goroutine that could have continued.
type DFS struct {
	Bound     int
	Frozen    bool // stop branching (used after the main phase of an execution: the epilogue is not enumerated)
	stack     []dfsFrame
	Done      bool // the whole bounded tree has been enumerated
	Diverged  int  // executions in which the recorded prefix could not be followed exactly
	Schedules int
}

type dfsFrame struct {
	opts []string
	idx  int
}

// Next prepares the next execution; it returns false when the tree is exhausted.
func (d *DFS) Next() bool {
	if d.Done {
		return false
	}
	d.Frozen = false
	if d.Schedules == 0 {
		d.Schedules++
		return true
	}
	for len(d.stack) > 0 {
		top := &d.stack[len(d.stack)-1]
		if top.idx+1 < len(top.opts) {
			top.idx++
			d.Schedules++
			return true
		}
		d.stack = d.stack[:len(d.stack)-1]
	}
	d.Done = true
	return false
}

// Result of one controlled execution.
type Result struct {
	Steps     []Step
	Choices   []string
	Stuck     bool              // terminal with unfinished drivers
	PollOnly  bool              // terminal because only polling loops were still cycling
	Blocked   map[string]string // role -> wait state at the terminal snapshot
	Infra     string            // non-empty: infrastructure failure (no quiescence, step limit)
	Diverged  bool              // replay could not be followed
	Leftovers []GInfo
}

// Begin switches to controlled mode. Must be called by the goroutine that will call Run (the controller).
func (c *Ctl) Begin(o Options) {
	c.selfGid = Goid()
	c.mu.Lock()
	c.roles = map[int64]string{}
	c.roleSeq = map[string]int{}
	c.objs = map[any]int{}
	c.mu.Unlock()
	c.gated = map[int64]*Arrival{}
	c.timed = map[int64]bool{}
	c.ignore = map[int64]bool{}
	for _, g := range Snapshot() {
		if g.Gid != c.selfGid {
			c.ignore[g.Gid] = true
		}
	}
	c.Steps = nil
	c.Choices = nil
	c.rng = rand.New(rand.NewSource(o.Seed))
	c.prio = map[string]int{}
	c.pctAt = map[int]bool{}
	c.spinCnt = map[string]int{}
	c.strategy = o.Strategy
	c.replay = o.Replay
	c.held = map[*Arrival]bool{}
	c.decided = map[*Arrival]bool{}
	c.dfs = o.DFS
	c.dfsPre = 0
	c.lastRole = ""
	if o.Strategy == "pct" {
		ms := o.MaxSteps
		if ms <= 0 || ms > 200 {
			ms = 200
		}
		for i := 0; i < o.PCTDepth; i++ {
			c.pctAt[c.rng.Intn(ms)] = true
		}
	}
	debug.SetGCPercent(-1)
	off := make(chan struct{})
	c.off.Store(&off)
	c.mode.Store(ModeCtl)
}

// Run drives the execution until it terminates: nothing gated, nothing in a timed wait.
// driversDone reports whether all driver programs have finished (called only at quiescent points).
func (c *Ctl) Run(o Options, driversDone func() bool) Result {
	var res Result
	if o.Budget == 0 {
		o.Budget = 3 * time.Second
	}
	if o.MaxSteps == 0 {
		o.MaxSteps = 5000
	}
	idleSpins := 0
	var idleT0 time.Time
	pollCnt := map[int64]int{}
	var snap []GInfo
	isPoll := func(pt string) bool {
		for _, p := range o.PollPrefixes {
			if strings.HasPrefix(pt, p) {
				return true
			}
		}
		return false
	}
	for {
		var ok bool
		snap, ok = c.quiesce(o.Budget)
		if !ok {
			res.Infra = "no quiescence within budget"
			for _, g := range snap {
				if g.Gid != c.selfGid && !g.Blocked {
					res.Infra += fmt.Sprintf("; g%d [%s] %s", g.Gid, g.State, g.Top)
				}
			}
			break
		}
		allPoll := len(o.PollPrefixes) > 0 && len(c.gated) > 0
		for _, a := range c.gated {
			if !isPoll(a.Pt) {
				allPoll = false
			}
		}
		if len(o.PollPrefixes) > 0 && len(c.gated)+len(c.timed) > 0 && (allPoll || len(c.gated) == 0) {
			// every goroutine that can still move is inside a polling loop, and each of them has gone through at
			// least two complete rounds (re-evaluating the unchanged state) since anybody else moved
			enough := true
			for gid := range c.gated {
				if pollCnt[gid] < 7 {
					enough = false
				}
			}
			for gid := range c.timed {
				if pollCnt[gid] < 7 {
					enough = false
				}
			}
			if enough {
				res.PollOnly = true
				if !driversDone() {
					res.Stuck = true
				}
				break
			}
		}
		if len(c.gated) == 0 && len(c.timed) > 0 {
			// a goroutine that left its timed wait by exiting is no longer a timed waiter
			alive := map[int64]bool{}
			for _, g := range snap {
				alive[g.Gid] = true
			}
			for gid := range c.timed {
				if !alive[gid] {
					delete(c.timed, gid)
				}
			}
		}
		if len(c.gated) == 0 {
			// only goroutines inside timed waits are left: real time has to pass (bounded by wall-clock time: no timed
			// wait of the library under the harness lasts longer than a few ms)
			if len(c.timed) > 0 && (idleSpins == 0 || time.Since(idleT0) < 1500*time.Millisecond) {
				if idleSpins == 0 {
					idleT0 = time.Now()
				}
				idleSpins++
				time.Sleep(50 * time.Microsecond)
				continue
			}
			// terminal
			if !driversDone() {
				res.Stuck = true
			}
			break
		}
		idleSpins = 0
		if c.OnHolders != nil {
			var held []Arrival
			for _, a := range c.gated {
				if strings.HasSuffix(a.Pt, ".locked") || strings.HasSuffix(a.Pt, ".rlocked") || strings.HasSuffix(a.Pt, ".bcast") || strings.HasSuffix(a.Pt, ".wait") {
					held = append(held, *a)
				}
			}
			if len(held) >= 2 {
				sort.Slice(held, func(i, j int) bool { return held[i].Role < held[j].Role })
				c.OnHolders(held)
			}
		}
		if len(c.Steps) >= o.MaxSteps {
			res.Infra = "step limit"
			break
		}
		a, idle, div := c.choose(o)
		if allPoll && !div && c.strategy != "replay" {
			// fair round-robin among pollers
			idle = false
			for _, g := range c.gated {
				if a == nil || pollCnt[g.Gid] < pollCnt[a.Gid] || (pollCnt[g.Gid] == pollCnt[a.Gid] && g.Role < a.Role) {
					a = g
				}
			}
		}
		if div {
			res.Diverged = true
			break
		}
		if idle {
			c.Choices = append(c.Choices, "~idle")
			// let time pass until a timed waiter arrives at its tw1 gate (bounded)
			t0 := time.Now()
			n0 := len(c.gated)
			for time.Since(t0) < 20*time.Millisecond {
				time.Sleep(50 * time.Microsecond)
				c.drain()
				if len(c.gated) != n0 {
					break
				}
			}
			continue
		}
		delete(c.gated, a.Gid)
		if strings.HasSuffix(a.Pt, ".tw0") {
			c.timed[a.Gid] = true
		}
		if isPoll(a.Pt) {
			pollCnt[a.Gid]++
		} else {
			clear(pollCnt)
		}
		c.lastRole = a.Role
		st := Step{Role: a.Role, Pt: a.Pt, Obj: a.Obj, N: a.N}
		c.Steps = append(c.Steps, st)
		c.Choices = append(c.Choices, a.Role)
		if c.OnStep != nil {
			c.OnStep(st) // before the release: whatever the goroutine records next comes after its step line
		}
		close(a.release)
	}
	res.Steps = c.Steps
	res.Choices = c.Choices
	res.Blocked = map[string]string{}
	c.mu.Lock()
	for _, g := range snap {
		if g.Gid == c.selfGid {
			continue
		}
		if r, ok := c.roles[g.Gid]; ok {
			res.Blocked[r] = g.State
		}
	}
	c.mu.Unlock()
	res.Leftovers = snap
	return res
}

func (c *Ctl) choose(o Options) (a *Arrival, idle bool, diverged bool) {
	// deterministic order
	list := make([]*Arrival, 0, len(c.gated))
	for _, g := range c.gated {
		list = append(list, g)
	}
	sort.Slice(list, func(i, j int) bool { return list[i].Role < list[j].Role })
	stepNo := len(c.Choices)
	switch c.strategy {
	case "dfs":
		// options: the goroutine released last (if it can continue) first, then the others, then "let time pass"
		var opts []string
		cur := ""
		for _, g := range list {
			if g.Role == c.lastRole {
				cur = g.Role
			}
		}
		if cur != "" {
			opts = append(opts, cur)
		}
		if cur == "" || c.dfsPre < c.dfs.Bound {
			for _, g := range list {
				if g.Role != cur {
					opts = append(opts, g.Role)
				}
			}
			if len(c.timed) > 0 {
				opts = append(opts, "~idle")
			}
		}
		var pick string
		if c.dfs.Frozen {
			pick = opts[0]
		} else if stepNo < len(c.dfs.stack) {
			f := c.dfs.stack[stepNo]
			want := f.opts[f.idx]
			ok := false
			for _, o := range opts {
				if o == want {
					ok = true
				}
			}
			if ok {
				pick = want
			} else {
				// the program did not behave as in the previous execution (timers): continue from here afresh
				c.dfs.Diverged++
				c.dfs.stack = c.dfs.stack[:stepNo]
			}
		}
		if pick == "" {
			c.dfs.stack = append(c.dfs.stack[:stepNo], dfsFrame{opts: opts, idx: 0})
			pick = opts[0]
		}
		if c.dfs.Frozen {
			c.dfsPre = c.dfs.Bound // no further preemptions
		}
		if cur != "" && pick != cur {
			c.dfsPre++
		}
		if pick == "~idle" {
			return nil, true, false
		}
		for _, g := range list {
			if g.Role == pick {
				return g, false, false
			}
		}
		return list[0], false, false
	case "replay":
		if stepNo >= len(c.replay) {
			// past the recorded schedule: continue randomly
			return list[c.rng.Intn(len(list))], false, false
		}
		want := c.replay[stepNo]
		if want == "~idle" {
			if len(c.timed) == 0 {
				return nil, false, true
			}
			return nil, true, false
		}
		for _, g := range list {
			if g.Role == want {
				return g, false, false
			}
		}
		return nil, false, true
	case "pct":
		if len(c.timed) > 0 && c.rng.Intn(1000) < o.IdleProb {
			return nil, true, false
		}
		for _, g := range list {
			if _, ok := c.prio[g.Role]; !ok {
				c.prio[g.Role] = 1000 + c.rng.Intn(1000000)
			}
		}
		best := list[0]
		for _, g := range list[1:] {
			if c.prio[g.Role] > c.prio[best.Role] {
				best = g
			}
		}
		// change point, or a goroutine that keeps hitting the same gate (spin / poll loop): demote
		key := best.Role + "@" + best.Pt
		c.spinCnt[key]++
		if c.pctAt[stepNo] || c.spinCnt[key] > 3 {
			c.spinCnt[key] = 0
			c.prio[best.Role] = c.rng.Intn(1000) - stepNo*1000 // below everything so far
		}
		return best, false, false
	case "hold", "holdlock":
		// random, except that a goroutine which is about to park on a condition variable (a ".wait" gate: it has
		// evaluated its predicate and still holds the lock) is, with probability 1/2, held back until nothing else can
		// run: this is the window in which a wake-up can be lost
		var cand []*Arrival
		for _, g := range list {
			if !c.decided[g] {
				c.decided[g] = true
				if strings.HasSuffix(g.Pt, ".wait") && c.rng.Intn(2) == 0 {
					c.held[g] = true
				}
				if c.strategy == "holdlock" && (strings.HasSuffix(g.Pt, ".locked") || strings.HasSuffix(g.Pt, ".rlocked")) && c.rng.Intn(2) == 0 {
					c.held[g] = true // keep a goroutine inside its critical section while the others run towards the same lock
				}
			}
			if !c.held[g] {
				cand = append(cand, g)
			}
		}
		if len(cand) == 0 {
			if len(c.timed) > 0 && c.rng.Intn(2) == 0 {
				return nil, true, false
			}
			g := list[c.rng.Intn(len(list))]
			delete(c.held, g)
			return g, false, false
		}
		if len(c.timed) > 0 && c.rng.Intn(1000) < o.IdleProb {
			return nil, true, false
		}
		pick := cand[c.rng.Intn(len(cand))]
		// a goroutine that keeps coming back to the same gate is spinning / polling on something a held goroutine owns:
		// holding on would never end, so everybody is let go
		key := pick.Role + "@" + pick.Pt
		if !strings.HasPrefix(pick.Pt, "drv.") { // (the drivers' own scheduling points repeat by design)
			c.spinCnt[key]++
		}
		if c.spinCnt[key] > 6 && len(c.held) > 0 {
			c.spinCnt[key] = 0
			for g := range c.held {
				delete(c.held, g)
			}
		}
		return pick, false, false
	default: // random
		if len(c.timed) > 0 && c.rng.Intn(1000) < o.IdleProb {
			return nil, true, false
		}
		return list[c.rng.Intn(len(list))], false, false
	}
}

// End switches the hooks to pass-through and releases everything that is still gated.
func (c *Ctl) End() {
	c.mode.Store(ModeOff)
	if offp := c.off.Load(); offp != nil {
		select {
		case <-*offp:
		default:
			close(*offp)
		}
	}
	for {
		c.drain()
		if len(c.gated) == 0 {
			break
		}
		for gid, a := range c.gated {
			close(a.release)
			delete(c.gated, gid)
		}
		time.Sleep(20 * time.Microsecond)
	}
	debug.SetGCPercent(100)
}

// WaitGone waits until no goroutine other than the caller and those in keep (gids) exists whose stack mentions any
// of the given substrings; returns the leftovers after the budget.
func WaitGone(self int64, budget time.Duration, match func(g GInfo) bool) []GInfo {
	deadline := time.Now().Add(budget)
	for {
		var left []GInfo
		for _, g := range Snapshot() {
			if g.Gid == self {
				continue
			}
			if match(g) {
				left = append(left, g)
			}
		}
		if len(left) == 0 || time.Now().After(deadline) {
			return left
		}
		time.Sleep(200 * time.Microsecond)
	}
}

// StartFree switches to free-running mode; yield1inN = 0 disables perturbation.
func (c *Ctl) StartFree(seed int64, yield1inN int) {
	freeTimed.Store(0)
	c.freeSeed.Store(seed*7919 + 17)
	c.freeYield.Store(int32(yield1inN))
	c.mode.Store(ModeFree)
}

func (c *Ctl) Stop() { c.mode.Store(ModeOff) }

// ---------------------------------------------------------------------------------------------------------------
// free mode helpers

var freeTimed atomic.Int32

// FreeHookTimed must be called by the free-mode hook for tw0/tw1 points.
func freeTimedHook(pt string) {
	if strings.HasSuffix(pt, ".tw0") {
		freeTimed.Add(1)
	} else if strings.HasSuffix(pt, ".tw1") {
		freeTimed.Add(-1)
	}
}

// FreeQuiescent reports whether, in one atomic snapshot, every goroutine other than the caller is blocked and no
// goroutine is inside a timed wait of the library.
func FreeQuiescent(self int64) (bool, []GInfo) {
	if freeTimed.Load() != 0 {
		return false, nil
	}
	snap := Snapshot()
	for i := range snap {
		if snap[i].Gid != self && !snap[i].Blocked {
			return false, snap
		}
	}
	return freeTimed.Load() == 0, snap
}

// RoleOf returns the registered role of a goroutine id.
func (c *Ctl) RoleOf(gid int64) string {
	c.mu.Lock()
	defer c.mu.Unlock()
	return c.roles[gid]
}
