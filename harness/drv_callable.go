package main

import (
	"errors"
	"fmt"
	"os"
	"path/filepath"
	"reflect"
	"time"

	"verifharness/rec"

	bigbuff "github.com/joeycumines/go-bigbuff"
)

// The Callable universe. Parameter / result types and argument value kinds are named by short strings that the
// specification (CallableL1.tla) uses as well.
var (
	tInt    = reflect.TypeOf(0)
	tString = reflect.TypeOf("")
	tPInt   = reflect.TypeOf((*int)(nil))
	tAny    = reflect.TypeOf((*interface{})(nil)).Elem()
	tErr    = reflect.TypeOf((*error)(nil)).Elem()
	tSInt   = reflect.TypeOf([]int(nil))
	tNInt   = reflect.TypeOf(namedInt(0))
	typeOf  = map[string]reflect.Type{"int": tInt, "string": tString, "pint": tPInt, "any": tAny, "err": tErr, "sint": tSInt, "nint": tNInt}
)

// namedInt has the same kind as int but is a different type: neither is assignable to the other
type namedInt int

var theInt = 5
var staleInt = 98
var errStale = errors.New("stale")

// argument values by kind
func argValue(kind string) interface{} {
	switch kind {
	case "i":
		return 1
	case "s":
		return "s"
	case "p":
		return &theInt
	case "pn":
		return (*int)(nil)
	case "nil":
		return nil
	case "e":
		return errors.New("e")
	case "sl":
		return []int{1}
	case "ni":
		return namedInt(3)
	}
	panic(kind)
}

// kindOfValue classifies a value received by the recording function for a parameter of static type t
func kindOfValue(v reflect.Value) string {
	switch v.Kind() {
	case reflect.Int:
		if v.Type() == tNInt {
			return "ni"
		}
		return "i"
	case reflect.String:
		return "s"
	case reflect.Ptr:
		if v.Type().String() == "*errors.errorString" {
			return "e"
		}
		if v.IsNil() {
			return "pn"
		}
		return "p"
	case reflect.Slice:
		if v.IsNil() {
			return "sln"
		}
		return "sl"
	case reflect.Interface:
		if v.IsNil() {
			return "nil"
		}
		return kindOfValue(v.Elem())
	}
	return "?" + v.Kind().String()
}

func kindOfAny(v reflect.Value) string { return kindOfValue(v) }

// result values by type; nilres selects nil for the interface typed results
func resultValue(typ string, nilres bool) reflect.Value {
	switch typ {
	case "int":
		return reflect.ValueOf(7)
	case "string":
		return reflect.ValueOf("r")
	case "pint":
		if nilres {
			return reflect.Zero(tPInt) // a typed nil pointer
		}
		return reflect.ValueOf(&theInt)
	case "any":
		if nilres {
			return reflect.Zero(tAny)
		}
		v := reflect.New(tAny).Elem()
		v.Set(reflect.ValueOf(7))
		return v
	case "err":
		if nilres {
			return reflect.Zero(tErr)
		}
		v := reflect.New(tErr).Elem()
		v.Set(reflect.ValueOf(errors.New("re")))
		return v
	}
	panic(typ)
}

func seqs(alphabet []string, maxLen int) [][]string {
	out := [][]string{{}}
	last := [][]string{{}}
	for l := 1; l <= maxLen; l++ {
		var next [][]string
		for _, p := range last {
			for _, a := range alphabet {
				q := append(append([]string{}, p...), a)
				next = append(next, q)
			}
		}
		out = append(out, next...)
		last = next
	}
	return out
}

// cmdCallable: harness callable -out DIR -tier quick|thorough -seed N
func cmdCallable(args map[string]string) {
	t0 := time.Now()
	out := args["out"]
	os.MkdirAll(out, 0o755)
	thorough := args["tier"] == "thorough"
	seed := atoi64(args["seed"], 1)
	st := newStats("callable", "enum", seed)
	w, err := rec.NewWriter(filepath.Join(out, "trace.ndjson"))
	if err != nil {
		fatalf("%v", err)
	}
	var evs []rec.Ev
	flush := func() {
		w.WriteExec(evs)
		evs = evs[:0]
	}
	ptypes := []string{"int", "string", "pint", "any", "err", "sint", "nint"}
	vkinds := []string{"i", "s", "p", "pn", "nil", "e", "sl", "ni"}
	maxArgs := 2
	if thorough {
		maxArgs = 3
	}
	n := 0
	// signatures an argument option is applied to before its real use (see below)
	warmups := [][]string{{"int"}, {"string", "any"}, {"pint"}, {"any", "any"}, {}, {"sint"}, {"err", "int"}}
	// universe A: arguments
	for _, params := range seqs(ptypes, 2) {
		for _, variadic := range []bool{false, true} {
			if variadic && len(params) == 0 {
				continue
			}
			for _, av := range seqs(vkinds, maxArgs) {
				n++
				// the quick tier takes a seeded 1-in-3 sample of the 3-argument-free universe plus all short cases
				if !thorough && len(av) == 2 && len(params) == 2 && (n+int(seed))%3 != 0 {
					continue
				}
				evs = append(evs, caseArgs(params, variadic, av, nil))
				st.Executions++
				// the same option VALUE applied to a callable of another signature first (options are values: re-using
				// one must give what a fresh one gives)
				if len(av) <= 2 && (n+int(seed))%2 == 0 {
					evs = append(evs, caseArgs(params, variadic, av, warmups[n%len(warmups)]))
					st.Executions++
				}
				if len(evs) >= 2000 {
					flush()
				}
			}
		}
	}
	// universe B: results
	rtypes := []string{"int", "string", "pint", "any", "err"}
	// ("okpre" / "okanypre": valid targets that already hold a value - a caller re-using its variables)
	tkinds := []string{"ok", "okany", "okpre", "okanypre", "wrong", "nilptr", "nonptr", "unil"}
	maxT := 2
	if thorough {
		maxT = 3
	}
	for _, results := range seqs(rtypes, 2) {
		for _, nilres := range []bool{false, true} {
			for _, tk := range seqs(tkinds, maxT) {
				evs = append(evs, caseResults(results, nilres, tk))
				st.Executions++
			}
			// ("sfloat" *[]float64, "sstring" *[]string: element types some results convert to but are not assignable to)
			for _, sk := range []string{"sany", "sint", "sfloat", "sstring", "nilp", "nonptr", "notslice", "unil"} {
				evs = append(evs, caseResultsSlice(results, nilres, sk))
				st.Executions++
			}
			if len(evs) >= 2000 {
				flush()
			}
		}
	}
	// universe C: arguments and results together, and calls without an args / results option
	for _, params := range seqs([]string{"int", "any", "pint"}, 1) {
		for _, av := range seqs([]string{"i", "nil", "pn"}, 1) {
			for _, results := range seqs([]string{"int", "err"}, 1) {
				for _, tk := range seqs([]string{"ok", "unil", "wrong"}, 1) {
					evs = append(evs, caseBoth(params, av, results, tk))
					st.Executions++
				}
			}
		}
	}
	flush()
	w.Close()
	st.Events = w.Lines
	st.Nontrivial = st.Executions
	st.schedHashes["enum"] = true
	st.write(out, t0)
}

func recorder(params []string, variadic bool, results []string, nilres bool, invoked *int, got *[]string) interface{} {
	in := make([]reflect.Type, len(params))
	for i, p := range params {
		in[i] = typeOf[p]
	}
	if variadic {
		in[len(in)-1] = reflect.SliceOf(in[len(in)-1])
	}
	outT := make([]reflect.Type, len(results))
	for i, r := range results {
		outT[i] = typeOf[r]
	}
	ft := reflect.FuncOf(in, outT, variadic)
	return reflect.MakeFunc(ft, func(args []reflect.Value) []reflect.Value {
		*invoked++
		g := []string{}
		for i, a := range args {
			if variadic && i == len(args)-1 {
				for k := 0; k < a.Len(); k++ {
					g = append(g, kindOfAny(a.Index(k)))
				}
				continue
			}
			g = append(g, kindOfAny(a))
		}
		*got = g
		res := make([]reflect.Value, len(results))
		for i, r := range results {
			res[i] = resultValue(r, nilres)
		}
		return res
	}).Interface()
}

func outcome(err error, p string) string {
	if p != "" {
		return "panic"
	}
	if err != nil {
		return "err"
	}
	return "ok"
}

func caseArgs(params []string, variadic bool, av []string, warm []string) rec.Ev {
	invoked, got := 0, []string{}
	fn := recorder(params, variadic, nil, false, &invoked, &got)
	vals := make([]interface{}, len(av))
	for i, k := range av {
		vals[i] = argValue(k)
	}
	opt := bigbuff.CallArgs(vals...)
	if warm != nil {
		wi, wg := 0, []string{}
		safeCall(func() { _ = bigbuff.Call(bigbuff.NewCallable(recorder(warm, false, nil, false, &wi, &wg)), opt) })
	}
	var err error
	p := safeCall(func() { err = bigbuff.Call(bigbuff.NewCallable(fn), opt) })
	return rec.Ev{"ev": "case", "u": "A", "params": params, "variadic": variadic, "args": av, "out": outcome(err, p), "invoked": invoked, "got": got, "msg": msg(err, p)}
}

// a result target of the given kind for result type typ; returns the target and a function that reports its state
func makeTarget(kind, typ string) (target interface{}, state func(expected reflect.Value) string) {
	untouched := func(reflect.Value) string { return "na" }
	switch kind {
	case "ok":
		p := reflect.New(typeOf[typ])
		return p.Interface(), func(exp reflect.Value) string { return cmpStored(p.Elem(), exp, typ) }
	case "okany":
		p := reflect.New(tAny)
		return p.Interface(), func(exp reflect.Value) string { return cmpStored(p.Elem(), exp, "any") }
	case "okpre", "okanypre":
		t := typ
		if kind == "okanypre" {
			t = "any"
		}
		p := reflect.New(typeOf[t])
		var pre reflect.Value
		switch t {
		case "int":
			pre = reflect.ValueOf(99)
		case "string":
			pre = reflect.ValueOf("stale")
		case "pint":
			pre = reflect.ValueOf(&staleInt)
		case "any":
			pre = reflect.ValueOf("stale")
		case "err":
			pre = reflect.ValueOf(errStale)
		}
		p.Elem().Set(pre)
		return p.Interface(), func(exp reflect.Value) string {
			v := p.Elem()
			// still the value it held before the call?
			if t == "pint" && !v.IsNil() && v.Interface().(*int) == &staleInt {
				return "stale"
			}
			if t != "pint" && !v.IsZero() && reflect.DeepEqual(v.Interface(), pre.Interface()) {
				return "stale"
			}
			if r := cmpStored(v, exp, t); r == "set" || r == "zero" {
				return "set"
			}
			return "bad"
		}
	case "wrong":
		wt := tInt
		if typ == "int" {
			wt = tString
		}
		p := reflect.New(wt)
		return p.Interface(), func(reflect.Value) string {
			if p.Elem().IsZero() {
				return "untouched"
			}
			return "set"
		}
	case "nilptr":
		return reflect.Zero(reflect.PtrTo(typeOf[typ])).Interface(), untouched
	case "nonptr":
		return 5, untouched
	case "unil":
		return nil, untouched
	}
	panic(kind)
}

// cmpStored: "untouched" if still the zero value and the expected value is not zero, "set" if equal to expected, else "bad"
func cmpStored(v, exp reflect.Value, typ string) string {
	same := false
	switch typ {
	case "any", "err":
		if exp.Kind() == reflect.Interface && exp.IsNil() {
			same = v.IsNil()
		} else if !v.IsNil() {
			same = reflect.DeepEqual(v.Interface(), exp.Interface())
		}
	default:
		same = reflect.DeepEqual(v.Interface(), exp.Interface())
	}
	if same {
		if v.IsZero() {
			return "zero" // expected value is itself the zero value: cannot tell set from untouched
		}
		return "set"
	}
	if v.IsZero() {
		return "untouched"
	}
	return "bad"
}

func caseResults(results []string, nilres bool, tk []string) rec.Ev {
	invoked, got := 0, []string{}
	fn := recorder(nil, false, results, nilres, &invoked, &got)
	targets := make([]interface{}, len(tk))
	states := make([]func(reflect.Value) string, len(tk))
	for i, k := range tk {
		typ := "int"
		if i < len(results) {
			typ = results[i]
		}
		targets[i], states[i] = makeTarget(k, typ)
	}
	var err error
	p := safeCall(func() { err = bigbuff.Call(bigbuff.NewCallable(fn), bigbuff.CallResults(targets...)) })
	stored := make([]string, len(tk))
	for i := range tk {
		exp := reflect.ValueOf(0)
		if i < len(results) {
			exp = resultValue(results[i], nilres)
		}
		stored[i] = states[i](exp)
	}
	return rec.Ev{"ev": "case", "u": "B", "results": results, "nilres": nilres, "mode": "results", "targets": tk, "out": outcome(err, p), "invoked": invoked, "stored": stored, "msg": msg(err, p)}
}

func caseResultsSlice(results []string, nilres bool, sk string) rec.Ev {
	invoked, got := 0, []string{}
	fn := recorder(nil, false, results, nilres, &invoked, &got)
	var target interface{}
	appended := func() int { return -1 }
	switch sk {
	case "sany":
		s := []interface{}{"x"}
		target = &s
		appended = func() int { return len(s) - 1 }
	case "sint":
		s := []int{9}
		target = &s
		appended = func() int { return len(s) - 1 }
	case "sfloat":
		s := []float64{9}
		target = &s
		appended = func() int { return len(s) - 1 }
	case "sstring":
		s := []string{"x"}
		target = &s
		appended = func() int { return len(s) - 1 }
	case "nilp":
		target = (*[]interface{})(nil)
	case "nonptr":
		target = []interface{}{}
	case "notslice":
		target = new(int)
	case "unil":
		target = nil
	}
	var err error
	p := safeCall(func() { err = bigbuff.Call(bigbuff.NewCallable(fn), bigbuff.CallResultsSlice(target)) })
	return rec.Ev{"ev": "case", "u": "S", "results": results, "nilres": nilres, "mode": "slice", "starget": sk, "out": outcome(err, p), "invoked": invoked, "appended": appended(), "msg": msg(err, p)}
}

func caseBoth(params, av, results, tk []string) rec.Ev {
	invoked, got := 0, []string{}
	fn := recorder(params, false, results, false, &invoked, &got)
	var opts []bigbuff.CallOption
	vals := make([]interface{}, len(av))
	for i, k := range av {
		vals[i] = argValue(k)
	}
	opts = append(opts, bigbuff.CallArgs(vals...))
	targets := make([]interface{}, len(tk))
	states := make([]func(reflect.Value) string, len(tk))
	for i, k := range tk {
		typ := "int"
		if i < len(results) {
			typ = results[i]
		}
		targets[i], states[i] = makeTarget(k, typ)
	}
	opts = append(opts, bigbuff.CallResults(targets...))
	var err error
	p := safeCall(func() { err = bigbuff.Call(bigbuff.NewCallable(fn), opts...) })
	stored := make([]string, len(tk))
	for i := range tk {
		exp := reflect.ValueOf(0)
		if i < len(results) {
			exp = resultValue(results[i], false)
		}
		stored[i] = states[i](exp)
	}
	return rec.Ev{"ev": "case", "u": "C", "params": params, "variadic": false, "args": av, "results": results, "nilres": false, "targets": tk,
		"out": outcome(err, p), "invoked": invoked, "got": got, "stored": stored, "msg": msg(err, p)}
}

var _ = fmt.Sprint
