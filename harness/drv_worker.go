package main

import (
	"encoding/json"
	"fmt"
	"math/rand"
	"sync"
	"sync/atomic"
	"time"

	"verifharness/rec"

	bigbuff "github.com/joeycumines/go-bigbuff"
)

// KOp is one operation of a Worker program: "do" (acquire hold h) or "done" (release hold h) or "nop".
type KOp struct {
	K string `json:"k"`
	H int    `json:"h,omitempty"`
	N int    `json:"n,omitempty"`
}

type KScenario struct {
	Drivers [][]KOp `json:"drivers"`
	Profile string  `json:"profile"`
	NH      int     `json:"nh"`
	// Self lists the instances (1 = first started, ...) whose function returns by itself, without having been told to
	// stop, after SelfNops scheduling points
	Self     []int `json:"self,omitempty"`
	SelfNops int   `json:"self_nops,omitempty"`
}

type kExec struct {
	e     *Env
	w     *bigbuff.Worker
	mu    sync.Mutex
	dones map[int]func()
	inst  atomic.Int32
	sc    *KScenario
}

func (x *kExec) fn(stop <-chan struct{}) {
	i := int(x.inst.Add(1))
	x.e.R.Add(rec.Ev{"ev": "istart", "i": i})
	for _, s := range x.sc.Self {
		if s == i {
			// returns by itself; a monitor (not a driver goroutine) reports when the stop channel handed to this
			// instance is closed eventually
			for k := 0; k < x.sc.SelfNops; k++ {
				ctl.Gate("drv.fn.linger")
			}
			x.e.R.Add(rec.Ev{"ev": "iselfend", "i": i})
			go func() {
				<-stop
				x.e.R.Add(rec.Ev{"ev": "izstop", "i": i})
			}()
			return
		}
	}
	ctl.Gate("drv.fn.wait")
	<-stop
	x.e.R.Add(rec.Ev{"ev": "isawstop", "i": i})
	ctl.Gate("drv.fn.linger") // stays in the "stopping" state for as long as the scheduler likes
	ctl.Gate("drv.fn.linger")
	x.e.R.Add(rec.Ev{"ev": "iend", "i": i})
}

func (x *kExec) do(g string, op KOp) {
	r := x.e.R
	switch op.K {
	case "nop":
		for i := 0; i <= op.N; i++ {
			ctl.Gate("drv.nop")
		}
	case "do":
		x.mu.Lock()
		_, have := x.dones[op.H]
		x.mu.Unlock()
		if have {
			return
		}
		ctl.Gate("drv.call")
		r.Call(g, "Do", "h", op.H)
		var d func()
		p := safeCall(func() { d = x.w.Do(x.fn) })
		x.mu.Lock()
		x.dones[op.H] = d
		x.mu.Unlock()
		r.Ret(g, "Do", "h", op.H, "r", cls(nil, p), "msg", p)
	case "done":
		x.mu.Lock()
		d := x.dones[op.H]
		if d != nil {
			x.dones[op.H] = nil // at most once per hold (keeps the key so that the hold id is not reused)
		}
		x.mu.Unlock()
		if d == nil {
			return
		}
		ctl.Gate("drv.call")
		r.Call(g, "Done", "h", op.H)
		p := safeCall(d)
		r.Ret(g, "Done", "h", op.H, "r", cls(nil, p), "msg", p)
	}
}

func genWorkerScenario(rng *rand.Rand, profile, mode string) any {
	if profile == "stress" {
		// free-running only: long programs of back-to-back Do / done pairs from a few goroutines, so that instances are
		// started, joined and stopped thousands of times with real contention on the Worker's mutex (windows that lie
		// between two statements without a hook point are only reachable this way)
		sc := &KScenario{Profile: profile}
		h := 0
		for d, nd := 0, 2+rng.Intn(3); d < nd; d++ {
			var ops []KOp
			for i, n := 0, 120+rng.Intn(120); i < n; i++ {
				h++
				ops = append(ops, KOp{K: "do", H: h}, KOp{K: "done", H: h})
			}
			sc.Drivers = append(sc.Drivers, ops)
		}
		sc.NH = h
		return sc
	}
	sc := &KScenario{Profile: profile}
	nd := 2 + rng.Intn(2)
	h := 0
	for d := 0; d < nd; d++ {
		var ops []KOp
		n := 1 + rng.Intn(3)
		for i := 0; i < n; i++ {
			h++
			if rng.Intn(3) == 0 {
				ops = append(ops, KOp{K: "nop", N: rng.Intn(8)})
			}
			ops = append(ops, KOp{K: "do", H: h})
			if rng.Intn(3) == 0 {
				ops = append(ops, KOp{K: "nop", N: rng.Intn(8)})
			}
			if rng.Intn(5) > 0 {
				ops = append(ops, KOp{K: "done", H: h})
			}
		}
		sc.Drivers = append(sc.Drivers, ops)
	}
	sc.NH = h
	if rng.Intn(3) == 0 && !gateTrace { // (WorkerL2, which gate traces are validated against, has no self-exiting instances)
		for i := 1; i <= 3; i++ {
			if rng.Intn(2) == 0 {
				sc.Self = append(sc.Self, i)
			}
		}
		sc.SelfNops = rng.Intn(6)
	}
	return sc
}

func runWorkerExec(execID int, sci any, e *Env) []rec.Ev {
	sc := sci.(*KScenario)
	x := &kExec{e: e, w: new(bigbuff.Worker), dones: map[int]func(){}, sc: sc}
	e.R.Add(rec.Ev{"ev": "reset", "exec": execID, "mode": e.Mode})
	for i, ops := range sc.Drivers {
		ops := ops
		e.Spawn(fmt.Sprintf("D%d", i+1), func(g string) {
			for _, op := range ops {
				x.do(g, op)
			}
		})
	}
	quiescent := func(phase int) {
		inst, _ := bigbuff.VerifWorkerState(x.w)
		e.R.Add(rec.Ev{"ev": "quiescent", "phase": phase, "pending": e.Pending(), "instance": inst})
	}
	e.WaitTerminal()
	if e.Infra == "" && !e.Res.Diverged {
		quiescent(0)
		e.Spawn("E1", func(g string) {
			for h := 1; h <= sc.NH; h++ {
				x.do(g, KOp{K: "done", H: h})
			}
		})
		e.WaitTerminal()
		quiescent(1)
	}
	left := e.End(3*time.Second, harnessOrLib)
	nlib := 0
	for _, g := range left {
		if libFrame(g) && !containsSpawn(g) {
			nlib++
		}
	}
	e.R.Add(rec.Ev{"ev": "final", "leaked": nlib, "returned": e.DriversDone()})
	e.St.Leaks += nlib
	return e.R.Events()
}

func cmdWorker(args map[string]string) {
	runDriver(scenarioRunner{
		name: "worker",
		gen:  genWorkerScenario,
		decode: func(b []byte) any {
			var sc KScenario
			json.Unmarshal(b, &sc)
			return &sc
		},
		run:  runWorkerExec,
		reps: 4,
	}, args)
}
