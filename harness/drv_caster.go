package main

import (
	"encoding/json"
	"fmt"
	"math"
	"math/rand"
	"runtime"
	"sync"
	"sync/atomic"
	"time"

	"verifharness/rec"

	bigbuff "github.com/joeycumines/go-bigbuff"
)

// QOp is one operation of a ChanCaster program: senders: send; receivers: reg, then recv or dereg; nop.
type QOp struct {
	K string `json:"k"`
	N int    `json:"n,omitempty"`
}

type QScenario struct {
	Drivers [][]QOp  `json:"drivers"`
	Names   []string `json:"names"`
	Profile string   `json:"profile"`
}

type qExec struct {
	e       *Env
	c       *bigbuff.ChanCaster[chan int, int]
	quit    chan struct{}
	mu      sync.Mutex
	sendSeq map[string]int
	// profile "stress": a spinning cyclic barrier lines the drivers up at the start of every round
	barN      int64
	bar       atomic.Int64
	barBroken atomic.Bool
	barRound  map[string]int64
	held      map[string]bool
}

// sync waits (spinning, so that the drivers leave it within nanoseconds of each other) until every driver reached its
// k-th barrier; it gives up when somebody does not arrive within two seconds (a driver stuck inside the library)
func (x *qExec) sync(g string) (ok bool) {
	x.mu.Lock()
	x.barRound[g]++
	k := x.barRound[g]
	x.mu.Unlock()
	x.bar.Add(1)
	t0 := time.Now()
	for i := 0; x.bar.Load() < k*x.barN; i++ {
		if x.barBroken.Load() {
			return false
		}
		if i%1024 == 1023 {
			if time.Since(t0) > 2*time.Second {
				x.barBroken.Store(true)
				return false
			}
			runtime.Gosched()
		}
	}
	return true
}

func (x *qExec) do(g string, op QOp) (abort bool) {
	r := x.e.R
	switch op.K {
	case "nop":
		for i := 0; i <= op.N; i++ {
			ctl.Gate("drv.nop")
		}
	case "sync":
		if !x.sync(g) {
			// leave in an orderly way: an unused registration is given back
			x.mu.Lock()
			h := x.held[g]
			x.mu.Unlock()
			if h {
				x.do(g, QOp{K: "dereg"})
			}
			return true
		}
	case "send":
		x.mu.Lock()
		x.sendSeq[g]++
		v := gnum(g)*100 + x.sendSeq[g]
		x.mu.Unlock()
		ctl.Gate("drv.call")
		r.Call(g, "Send", "v", v)
		n := -1
		p := safeCall(func() { n = x.c.Send(v) })
		r.Ret(g, "Send", "r", cls(nil, p), "msg", p, "n", n)
	case "reg":
		ctl.Gate("drv.call")
		r.Call(g, "Reg")
		n := -1
		p := safeCall(func() { n = x.c.Add(1) })
		r.Ret(g, "Reg", "r", cls(nil, p), "msg", p, "n", n)
		x.mu.Lock()
		x.held[g] = p == ""
		x.mu.Unlock()
	case "recv":
		// receive exactly one value; if the harness tells receivers to leave, deregister instead (the contract)
		ctl.Gate("drv.call")
		r.Call(g, "Recv")
		left := false
		select {
		case v := <-x.c.C:
			r.Add(rec.Ev{"ev": "recv", "g": g, "v": v})
			x.mu.Lock()
			x.held[g] = false
			x.mu.Unlock()
		case <-x.quit:
			left = true
		}
		r.Ret(g, "Recv", "r", "ok", "left", left)
		if left {
			x.do(g, QOp{K: "dereg"})
			return true
		}
	case "dereg":
		x.mu.Lock()
		x.held[g] = false
		x.mu.Unlock()
		ctl.Gate("drv.call")
		r.Call(g, "Dereg")
		n := -1
		p := safeCall(func() { n = x.c.Add(-1) })
		r.Ret(g, "Dereg", "r", cls(nil, p), "msg", p, "n", n)
	}
	return false
}

func genCasterScenario(rng *rand.Rand, profile, mode string) any {
	sc := &QScenario{Profile: profile}
	if profile == "stress" {
		// free-running only: rounds in which one Send starts at the same instant as the deregistrations of several
		// receivers (all registered before the round's barrier), while one or two receivers take the value - windows
		// between two atomic operations of Add and Send are only reachable with real parallelism
		rounds := 200 + rng.Intn(200)
		nflap, nkeep := 4+rng.Intn(4), 1+rng.Intn(2)
		rep := func(ops ...QOp) (out []QOp) {
			for i := 0; i < rounds; i++ {
				out = append(out, ops...)
			}
			return
		}
		sc.Drivers = append(sc.Drivers, rep(QOp{K: "sync"}, QOp{K: "send"}, QOp{K: "sync"}))
		sc.Names = append(sc.Names, "P1")
		for i := 0; i < nflap+nkeep; i++ {
			last := QOp{K: "dereg"}
			if i >= nflap {
				last = QOp{K: "recv"}
			}
			sc.Drivers = append(sc.Drivers, rep(QOp{K: "reg"}, QOp{K: "sync"}, last, QOp{K: "sync"}))
			sc.Names = append(sc.Names, fmt.Sprintf("R%d", i+1))
		}
		return sc
	}
	nsend := 1 + rng.Intn(2)
	nrecv := 2 + rng.Intn(3)
	for i := 0; i < nsend; i++ {
		var ops []QOp
		for k := 1 + rng.Intn(3); k > 0; k-- {
			ops = append(ops, QOp{K: "nop", N: rng.Intn(10)}, QOp{K: "send"})
		}
		sc.Drivers = append(sc.Drivers, ops)
		sc.Names = append(sc.Names, fmt.Sprintf("P%d", i+1))
	}
	for i := 0; i < nrecv; i++ {
		var ops []QOp
		for k := 1 + rng.Intn(3); k > 0; k-- {
			ops = append(ops, QOp{K: "nop", N: rng.Intn(8)}, QOp{K: "reg"}, QOp{K: "nop", N: rng.Intn(6)})
			if rng.Intn(3) == 0 {
				ops = append(ops, QOp{K: "dereg"})
			} else {
				ops = append(ops, QOp{K: "recv"})
			}
		}
		sc.Drivers = append(sc.Drivers, ops)
		sc.Names = append(sc.Names, fmt.Sprintf("R%d", i+1))
	}
	return sc
}

// outcomeOf runs one (mis)use call: "ok", "panic", or "hang" when it does not return within half a second
func outcomeOf(f func()) string {
	res := make(chan string, 1)
	go func() {
		if p := safeCall(f); p != "" {
			res <- "panic"
		} else {
			res <- "ok"
		}
	}()
	select {
	case r := <-res:
		return r
	case <-time.After(500 * time.Millisecond):
		return "hang"
	}
}

var misuseRuns int

// misuseCases exercises out-of-range and unbalanced Adds on fresh casters (sequentially).
func misuseCases(r *rec.Rec) {
	mk := func() *bigbuff.ChanCaster[chan int, int] { return bigbuff.NewChanCaster(make(chan int)) }
	run := func(name string, fs ...func(c *bigbuff.ChanCaster[chan int, int])) {
		c := mk()
		outs := make([]string, len(fs))
		for i, f := range fs {
			f := f
			outs[i] = outcomeOf(func() { f(c) })
		}
		r.Add(rec.Ev{"ev": "misuse", "case": name, "outcomes": outs})
	}
	type C = *bigbuff.ChanCaster[chan int, int]
	add := func(d int) func(C) { return func(c C) { c.Add(d) } }
	send := func(c C) { c.Send(1) }
	run("neg-on-empty", add(-1), add(0), send, add(-1), send, add(1))
	run("overflow-sum", add(math.MaxInt32), add(1), add(0), send, send)
	run("pos-out-of-bounds", add(math.MaxInt32+1), add(0), send)
	run("neg-out-of-bounds", add(-math.MaxInt32-1), add(0), send)
	run("max-ok", add(math.MaxInt32), add(-math.MaxInt32), add(0))
	run("min-int", add(math.MinInt), add(0), send)
	run("max-int", add(math.MaxInt), add(0), send)
	run("min-int-plus-one", add(math.MinInt+1), add(0))
	run("neg-max-on-empty", add(-math.MaxInt32), add(0), send)
	// deltas whose low 32 bits look harmless
	run("pos-2pow32", add(1<<32), add(0), send)
	run("pos-2pow32-plus", add(1<<32+3), add(0), send)
	run("neg-2pow32", add(-(1 << 32)), add(0), send)
	// an unbalanced deregistration stays reported although a later registration covers the deficit
	run("deficit-covered", add(-1), add(1), add(0), send)
	run("deficit-overcovered", add(-3), add(5), add(0), send)
	// an unbalanced negative Add DURING a Send: Add(2); Send in flight; one receive; Add(-3); one more receive (the Send
	// reaches its final check); afterwards Add(0) and Send - outcomes: Add(-3), the in-flight Send, Add(0), Send
	{
		c := mk()
		c.Add(2)
		inflight := make(chan string, 1)
		go func() { inflight <- outcomeOf(func() { c.Send(1) }) }()
		recv := func() bool {
			select {
			case <-c.C:
				return true
			case <-time.After(500 * time.Millisecond):
				return false
			}
		}
		r1 := recv()
		o1 := outcomeOf(func() { c.Add(-3) })
		r2 := recv()
		var o2 string
		select {
		case o2 = <-inflight:
		case <-time.After(time.Second):
			o2 = "hang"
		}
		o3 := outcomeOf(func() { c.Add(0) })
		o4 := outcomeOf(func() { c.Send(2) })
		if !r1 {
			o1 = "norecv:" + o1
		}
		_ = r2
		r.Add(rec.Ev{"ev": "misuse", "case": "unbalanced-during-send", "outcomes": []string{o1, o2, o3, o4}})
	}
}

func runCasterExec(execID int, sci any, e *Env) []rec.Ev {
	sc := sci.(*QScenario)
	x := &qExec{e: e, c: bigbuff.NewChanCaster(make(chan int)), quit: make(chan struct{}), sendSeq: map[string]int{},
		barN: int64(len(sc.Drivers)), barRound: map[string]int64{}, held: map[string]bool{}}
	e.R.Add(rec.Ev{"ev": "reset", "exec": execID, "mode": e.Mode})
	for i, ops := range sc.Drivers {
		ops := ops
		e.Spawn(sc.Names[i], func(g string) {
			for _, op := range ops {
				if x.do(g, op) {
					return
				}
			}
		})
	}
	quiescent := func(phase int) {
		hi, lo := bigbuff.VerifChanCasterState(x.c)
		e.R.Add(rec.Ev{"ev": "quiescent", "phase": phase, "pending": e.Pending(), "hi": hi, "lo": lo})
	}
	e.WaitTerminal()
	if e.Infra == "" && !e.Res.Diverged {
		quiescent(0)
		close(x.quit)
		e.WaitTerminal()
		quiescent(1)
	}
	select {
	case <-x.quit:
	default:
		close(x.quit)
	}
	left := e.End(3*time.Second, harnessOrLib)
	nlib := 0
	for _, g := range left {
		if libFrame(g) && !containsSpawn(g) {
			nlib++
		}
	}
	hi, lo := bigbuff.VerifChanCasterState(x.c)
	if execID%25 == 0 && misuseRuns < 8 {
		// (a bounded number of times per process: the cases are deterministic, and some of them leave a goroutine
		// blocked for ever on purpose - outcome "hang")
		misuseRuns++
		misuseCases(e.R)
	}
	e.R.Add(rec.Ev{"ev": "final", "leaked": nlib, "returned": e.DriversDone(), "hi": hi, "lo": lo})
	return e.R.Events()
}

func cmdCaster(args map[string]string) {
	runDriver(scenarioRunner{
		name: "caster",
		gen:  genCasterScenario,
		decode: func(b []byte) any {
			var sc QScenario
			json.Unmarshal(b, &sc)
			return &sc
		},
		run:   runCasterExec,
		reps:  4,
		small: func(sc any) bool { return true },
	}, args)
}
