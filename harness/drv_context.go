package main

import (
	"context"
	"encoding/json"
	"math/rand"
	"sort"
	"sync"
	"sync/atomic"
	"time"

	"verifharness/rec"

	bigbuff "github.com/joeycumines/go-bigbuff"
)

// XScenario for the context combinators.
type CtxScenario struct {
	Kind    string  `json:"kind"`                // combine | conflated | chain
	N       int     `json:"n"`                   // others (combine) / inputs (conflated); chain: fixed 2 contexts
	Pre     []int   `json:"pre"`                 // inputs cancelled before construction
	Bg      []int   `json:"bg,omitempty"`        // inputs that can never be cancelled (values on context.Background())
	PreDL   bool    `json:"predl,omitempty"`     // the inputs of Pre are done by an expired deadline instead of a cancel
	DL      []int   `json:"dl,omitempty"`        // per input: 0 no deadline, k > 0 a deadline k hours away (never reached)
	Nils    []int   `json:"nils"`                // combine: others that are nil
	Steps   [][]int `json:"steps"`               // each step cancels these inputs at once (through one common parent); -1 = the returned cancel func
	Race    bool    `json:"race,omitempty"`      // the first two steps (or construction and the first step) run concurrently
	CRace   bool    `json:"crace,omitempty"`     // with Race: the construction races the first cancellation step
	Jitter  int     `json:"jitter_ns,omitempty"` // the second racer starts this many ns after the first (busy wait)
	Profile string  `json:"profile"`
}

type keyT string

// countingCtx wraps a context handed to the library: it hides its inner cancelCtx (Value only passes the harness's own
// keys through) and implements AfterFunc, so that registrations made on it through context.AfterFunc are observable;
// and it is a scheduling point of the environment: under the controlled scheduler the library's calls of Err() (after
// the error has been sampled) and AfterFunc() are gates, so a cancellation can be placed between them.
type countingCtx struct {
	inner context.Context
	live  atomic.Int32
}

func (c *countingCtx) Deadline() (time.Time, bool) { return c.inner.Deadline() }
func (c *countingCtx) Done() <-chan struct{}       { return c.inner.Done() }
func (c *countingCtx) Err() error {
	ctl.Gate("drv.ctx.err.before")
	err := c.inner.Err()
	ctl.Gate("drv.ctx.err")
	return err
}
func (c *countingCtx) Value(k any) any {
	if _, ok := k.(keyT); ok {
		return c.inner.Value(k)
	}
	return nil
}
func (c *countingCtx) AfterFunc(f func()) func() bool {
	ctl.Gate("drv.ctx.afterfunc")
	c.live.Add(1)
	var once sync.Once
	dec := func() { once.Do(func() { c.live.Add(-1) }) }
	stop := context.AfterFunc(c.inner, func() { dec(); f() })
	return func() bool {
		if stop() {
			dec()
			return true
		}
		return false
	}
}

func genCtxScenario(rng *rand.Rand, profile, mode string) any {
	if profile == "race" {
		// cancellations racing each other / racing the construction (free-running mode makes these real races)
		sc := &CtxScenario{Profile: profile, Race: true, Pre: []int{}, Nils: []int{}, Jitter: rng.Intn(6000)}
		switch rng.Intn(5) {
		case 3: // an input of ConflatedContext cancelled while the result is being wired up
			sc.Kind, sc.N, sc.CRace = "conflated", 2+rng.Intn(4), true
			sc.Steps = [][]int{{1 + rng.Intn(sc.N)}}
			if rng.Intn(2) == 0 {
				sc.Steps = append(sc.Steps, []int{1 + (sc.Steps[0][0] % sc.N)})
			}
		case 4: // one of the contexts of a ChainAfterFunc cancelled while the chain is being set up
			sc.Kind, sc.N, sc.CRace = "chain", 1, true
			sc.Steps = [][]int{{rng.Intn(2)}}
		case 0: // both contexts of a ChainAfterFunc cancelled at the same time by two goroutines
			sc.Kind, sc.N = "chain", 1
			if rng.Intn(2) == 0 {
				sc.Steps = [][]int{{0}, {1}}
			} else {
				sc.Steps = [][]int{{1}, {0}}
			}
		case 1: // an other of CombineContext cancelled while the combined context is being constructed
			sc.Kind, sc.N, sc.CRace = "combine", 1+rng.Intn(8), true
			sc.Steps = [][]int{{1 + rng.Intn(sc.N)}}
		default: // inputs of a ConflatedContext cancelled concurrently
			sc.Kind, sc.N = "conflated", 2+rng.Intn(3)
			sc.Steps = [][]int{{1}, {2}}
			for i := 3; i <= sc.N; i++ {
				sc.Steps = append(sc.Steps, []int{i})
			}
		}
		return sc
	}
	sc := &CtxScenario{Profile: profile, Kind: []string{"combine", "conflated", "chain"}[rng.Intn(3)]}
	lo := 0
	switch sc.Kind {
	case "combine":
		sc.N = rng.Intn(5)
		for i := 1; i <= sc.N; i++ {
			if rng.Intn(5) == 0 {
				sc.Nils = append(sc.Nils, i)
			}
		}
	case "conflated":
		sc.N = 1 + rng.Intn(4)
		lo = 1
	default:
		sc.N = 1
	}
	var ids []int
	for i := lo; i <= sc.N; i++ {
		ids = append(ids, i)
	}
	for _, i := range ids {
		if rng.Intn(5) == 0 {
			sc.Pre = append(sc.Pre, i)
		}
	}
	// cancellation steps: a random partition of a random subset, in random order; sometimes the explicit cancel
	rng.Shuffle(len(ids), func(a, b int) { ids[a], ids[b] = ids[b], ids[a] })
	k := rng.Intn(len(ids) + 1)
	for i := 0; i < k; {
		g := 1 + rng.Intn(2)
		if i+g > k {
			g = k - i
		}
		step := append([]int{}, ids[i:i+g]...)
		sort.Ints(step)
		sc.Steps = append(sc.Steps, step)
		i += g
	}
	if sc.Kind == "conflated" && rng.Intn(3) == 0 {
		pos := rng.Intn(len(sc.Steps) + 1)
		sc.Steps = append(sc.Steps[:pos], append([][]int{{-1}}, sc.Steps[pos:]...)...)
	}
	// inputs nobody cancels may be contexts that nobody CAN cancel; pre-cancelled ones may have expired instead
	used := map[int]bool{}
	for _, i := range sc.Pre {
		used[i] = true
	}
	for _, st := range sc.Steps {
		for _, i := range st {
			used[i] = true
		}
	}
	for _, i := range ids {
		if !used[i] && i >= 1 && rng.Intn(100) < 40 {
			sc.Bg = append(sc.Bg, i)
		}
	}
	sc.PreDL = rng.Intn(2) == 0
	// some inputs carry (far away) deadlines, equal or different: who expires first must not matter for explicit cancels
	if rng.Intn(3) == 0 {
		sc.DL = make([]int, sc.N+1)
		for i := range sc.DL {
			sc.DL[i] = rng.Intn(4)
		}
	}
	if sc.Pre == nil {
		sc.Pre = []int{}
	}
	if sc.Nils == nil {
		sc.Nils = []int{}
	}
	return sc
}

func runCtxExec(execID int, sci any, e *Env) []rec.Ev {
	sc := sci.(*CtxScenario)
	t0dl := time.Now()
	e.R.Add(rec.Ev{"ev": "reset", "exec": execID, "mode": e.Mode, "kind": sc.Kind})
	isNil := map[int]bool{}
	for _, i := range sc.Nils {
		isNil[i] = true
	}
	// inputs: every step gets one parent context; an input is a child of the parent of the step that cancels it
	stepOf := map[int]int{}
	for s, st := range sc.Steps {
		for _, i := range st {
			stepOf[i] = s
		}
	}
	parents := make([]context.Context, len(sc.Steps))
	pcancel := make([]context.CancelFunc, len(sc.Steps))
	for s := range sc.Steps {
		parents[s], pcancel[s] = context.WithCancel(context.Background())
	}
	inputs := map[int]context.Context{}
	own := map[int]context.CancelFunc{}
	counters := map[int]*countingCtx{}
	lo := 0
	if sc.Kind == "conflated" {
		lo = 1
	}
	for i := lo; i <= sc.N; i++ {
		base := context.Background()
		if s, ok := stepOf[i]; ok {
			base = parents[s]
		}
		ctx, c := context.WithCancel(base)
		if i < len(sc.DL) && sc.DL[i] > 0 {
			var c2 context.CancelFunc
			ctx, c2 = context.WithDeadline(ctx, t0dl.Add(time.Duration(sc.DL[i])*time.Hour))
			defer c2()
		}
		for _, b := range sc.Bg {
			if b == i {
				ctx, c = context.Background(), func() {}
			}
		}
		if sc.PreDL {
			for _, pi := range sc.Pre {
				if pi == i {
					ctx, c = context.WithDeadline(base, time.Now().Add(-time.Hour)) // done already: Err() is DeadlineExceeded
				}
			}
		}
		if i == lo {
			ctx = context.WithValue(ctx, keyT("first"), "v1")
		} else {
			ctx = context.WithValue(ctx, keyT("second"), "v2")
		}
		own[i] = c
		switch {
		case sc.Kind == "combine" && i >= 1:
			cc := &countingCtx{inner: ctx}
			counters[i] = cc // registrations on the others must be gone once the result is cancelled
			inputs[i] = cc
		case sc.Kind == "combine":
			inputs[i] = ctx // the primary stays a plain context (its values and cancellation propagate natively)
		default:
			inputs[i] = &countingCtx{inner: ctx}
		}
	}
	cancelled := map[int]bool{}
	for _, i := range sc.Pre {
		own[i]()
		cancelled[i] = true
	}
	var result context.Context
	var resCancel context.CancelFunc
	var calls atomic.Int32
	explicit := false
	observe := func(step int) {
		cs := []int{}
		for i := range cancelled {
			cs = append(cs, i)
		}
		sort.Ints(cs)
		ev := rec.Ev{"ev": "obs", "kind": sc.Kind, "n": sc.N, "step": step, "cancelled": cs, "nils": sc.Nils, "explicit": explicit,
			"res": false, "calls": int(calls.Load()), "v1ok": true, "v2absent": true, "livereg": 0}
		if result != nil {
			ev["res"] = result.Err() != nil
			ev["v1ok"] = result.Value(keyT("first")) == "v1"
			ev["v2absent"] = result.Value(keyT("second")) == nil
		}
		lr := 0
		for _, c := range counters {
			lr += int(c.live.Load())
		}
		ev["livereg"] = lr
		e.R.Add(ev)
	}
	construct := func(g string) {
		ctl.Gate("drv.call")
		switch sc.Kind {
		case "combine":
			var others []context.Context
			for i := 1; i <= sc.N; i++ {
				if isNil[i] {
					others = append(others, nil)
				} else {
					others = append(others, inputs[i])
				}
			}
			result = bigbuff.CombineContext(inputs[0], others...)
		case "conflated":
			var ins []context.Context
			for i := 1; i <= sc.N; i++ {
				ins = append(ins, inputs[i])
			}
			result, resCancel = bigbuff.ConflatedContext(ins...)
		case "chain":
			bigbuff.ChainAfterFunc(inputs[0], inputs[1], func() { calls.Add(1) })
		}
		// what the result looks like the moment the constructor returns (inputs cancelled beforehand are listed)
		if result != nil {
			pre := append([]int{}, sc.Pre...)
			sort.Ints(pre)
			e.R.Add(rec.Ev{"ev": "built", "kind": sc.Kind, "n": sc.N, "pre": pre, "nils": sc.Nils, "race": sc.Race, "res0": result.Err() != nil})
		}
	}
	var mu sync.Mutex
	var flag atomic.Int32
	doStep := func(s int, st []int, align int32) func(g string) {
		return func(g string) {
			ctl.Gate("drv.call")
			if align > 0 && e.Mode == "c" {
				// controlled mode: spread the racers in scheduling time
				for k := (sc.Jitter / 7) % 9 * (s % 2); k > 0; k-- {
					ctl.Gate("drv.nop")
				}
			}
			if align > 0 && e.Mode != "c" {
				// line the racing goroutines up (free-running mode only); the second one starts a little later
				me := flag.Add(1)
				for flag.Load() < align {
				}
				if me == align && sc.Jitter > 0 {
					for t0 := time.Now(); time.Since(t0) < time.Duration(sc.Jitter); {
					}
				}
			}
			if len(st) == 1 && st[0] == -1 {
				mu.Lock()
				explicit = true
				mu.Unlock()
				if resCancel != nil {
					resCancel()
				}
				return
			}
			mu.Lock()
			for _, i := range st {
				cancelled[i] = true
			}
			mu.Unlock()
			pcancel[s]() // cancels every input of this step at once
		}
	}
	first := 0
	if sc.Race && (sc.CRace || sc.Kind == "combine") && len(sc.Steps) > 0 {
		// construction and the first cancellation race
		e.Spawn("S", func(g string) {
			if e.Mode != "c" {
				flag.Add(1)
				for flag.Load() < 2 {
				}
			}
			construct(g)
		})
		e.Spawn("D", doStep(0, sc.Steps[0], 2))
		first = 1
		e.WaitTerminal()
		if e.Infra == "" && !e.Res.Diverged {
			observe(1)
		}
	} else {
		e.Spawn("S", construct)
		e.WaitTerminal()
		if e.Infra == "" && !e.Res.Diverged {
			observe(0)
		}
		if sc.Race && len(sc.Steps) >= 2 && e.Infra == "" && !e.Res.Diverged {
			// the first two cancellation steps race
			e.Spawn("D1", doStep(0, sc.Steps[0], 2))
			e.Spawn("D2", doStep(1, sc.Steps[1], 2))
			first = 2
			e.WaitTerminal()
			if e.Infra == "" && !e.Res.Diverged {
				observe(2)
			}
		}
	}
	for s := first; s < len(sc.Steps); s++ {
		if e.Infra != "" || e.Res.Diverged {
			break
		}
		e.Spawn("D", doStep(s, sc.Steps[s], 0))
		e.WaitTerminal()
		if e.Infra == "" && !e.Res.Diverged {
			observe(s + 1)
		}
	}
	// release everything: cancel all inputs and the result; nothing of the library may stay behind
	for _, c := range own {
		c()
	}
	for _, c := range pcancel {
		c()
	}
	if resCancel != nil {
		resCancel()
	}
	left := e.End(3*time.Second, harnessOrLib)
	nlib := 0
	for _, g := range left {
		if libFrame(g) && !containsSpawn(g) {
			nlib++
		}
	}
	e.R.Add(rec.Ev{"ev": "final", "leaked": nlib})
	return e.R.Events()
}

func cmdContext(args map[string]string) {
	runDriver(scenarioRunner{
		name: "context",
		gen:  genCtxScenario,
		decode: func(b []byte) any {
			var sc CtxScenario
			json.Unmarshal(b, &sc)
			return &sc
		},
		run:   runCtxExec,
		reps:  3,
		small: func(sc any) bool { return true },
	}, args)
}
