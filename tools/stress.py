#!/usr/bin/env python3
"""stress.py <mode c|f> <n> <seed...>: runs every family's harness driver on the unchanged tree with large n and validates;
prints rejections (= false alarms to investigate, or findings). Not a registered check."""
import sys, json, subprocess, os, time
sys.path.insert(0, os.path.join(os.path.dirname(os.path.abspath(__file__)), '..', 'lib'))
import vlib, families
mode, n = sys.argv[1], int(sys.argv[2])
seeds = [int(x) for x in sys.argv[3:]] or [101]
seen = set()
for pid, f in sorted(families.F.items()):
    legs = [f] + [dict(f, **leg) for leg in f.get('legs', [])] if 'driver' in f else []
    for leg in legs:
        key = (leg['driver'], leg['profile'], leg['tv'], leg['prop'])
        if key in seen:
            continue
        seen.add(key)
        for seed in seeds:
            ctx = vlib.Ctx(f'STRESS_{leg["driver"]}_{leg["profile"]}', 'thorough', seed)
            ctx.fresh_work()
            t = time.time()
            try:
                vlib.build_harness(ctx)
                out, st = vlib.run_harness(ctx, leg['driver'], 'run', mode=mode, profile=leg['profile'], seed=seed, n=n, timeout=3000)
                rej, nexec = vlib.validate(ctx, leg['tv'], f'{out}/trace.ndjson', st, leg['prop'], 'tv', parallel=12)
                print(f'{leg["driver"]}/{leg["profile"]} seed={seed} mode={mode}: executions={nexec} rejected={len(rej)} skipped={getattr(ctx, "tv_skipped", 0)} {time.time() - t:.0f}s', flush=True)
                for r in rej[:3]:
                    print('   ', r['text'][:200], flush=True)
                    d = f'{ctx.work}/rej{rej.index(r)}'
                    os.makedirs(d, exist_ok=True)
                    open(f'{d}/trace.ndjson', 'w').write('\n'.join(r['exec_lines']) + '\n')
            except vlib.Infra as e:
                print(f'{leg["driver"]}/{leg["profile"]} seed={seed}: INFRA {str(e)[:300]}', flush=True)
