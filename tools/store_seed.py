#!/usr/bin/env python3
"""store_seed.py <src dir> <seed id> <property> <detected_by json> <notes>  -- copy a confirmed mutant into /verif/seeded/<id>/"""
import sys, json, os, shutil
src, sid, prop, detected, notes = sys.argv[1:6]
d = f'/verif/seeded/{sid}'
os.makedirs(d, exist_ok=True)
shutil.copy(f'{src}/patch.rebased.diff' if os.path.exists(f'{src}/patch.rebased.diff') else f'{src}/patch.diff', f'{d}/patch.diff')
shutil.copy(f'{src}/demo_test.go', f'{d}/demo_test.go.txt')  # .txt: must not be picked up as a Go package
meta = {}
try:
    meta = json.load(open(f'{src}/meta.json'))
except Exception:
    pass
meta.update(property=prop, origin='independent sub-agent given only the property text and a scratch worktree',
            confirmed_by=f'tools/confirm_mutant.sh {src} {sid}: demo passes without the patch, fails with it; suite (tag off) passes with the patch apart from the baseline-flaky tests',
            checks=json.loads(detected), notes=notes)
json.dump(meta, open(f'{d}/meta.json', 'w'), indent=1)
print('stored', d)
