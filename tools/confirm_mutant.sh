#!/bin/bash
# usage: confirm_mutant.sh <dir with patch.diff + demo_test.go> <seed id>
# confirms in a scratch worktree of /repo HEAD: demo passes without patch, fails with patch, suite passes with patch.
set -u
SRC=$1; ID=$2
export GOFLAGS=-mod=mod GOPROXY=off GOSUMDB=off GOTOOLCHAIN=local
WT=/tmp/confirm/$ID
rm -rf "$WT"; mkdir -p /tmp/confirm
git -C /repo worktree add --detach "$WT" HEAD -q || exit 2
cleanup() { git -C /repo worktree remove --force "$WT" 2>/dev/null; }
trap cleanup EXIT
cd "$WT"
cp "$SRC/demo_test.go" zz_demo_test.go
RUN=$(grep -o 'func Test[A-Za-z0-9_]*' zz_demo_test.go | sed 's/func //' | paste -sd'|')
a=$(go test -vet=off -count=1 -timeout 10m -run "^($RUN)\$" . 2>&1 | tail -3); arc=$?
echo "A(no patch): $(echo "$a" | tail -1)"
git apply "$SRC/patch.diff" 2>/dev/null || patch -p1 -s -F3 --no-backup-if-mismatch < "$SRC/patch.diff" || { echo "PATCH DOES NOT APPLY"; exit 3; }
go build ./... || { echo "BUILD FAILS"; exit 3; }
git diff -- . ':!zz_demo_test.go' > "$SRC/patch.rebased.diff"
b=$(go test -vet=off -count=1 -timeout 10m -run "^($RUN)\$" . 2>&1 | tail -3)
echo "B(patch): $(echo "$b" | tail -1)"
rm zz_demo_test.go
c=$(go test -vet=off -count=1 -timeout 25m . 2>&1 | grep -E '^--- FAIL' | grep -v -E 'TestChanCaster_Send_waitForNextFullCycle|TestChanPubSub_highContention|TestChannel_Get |TestExclusive_CallAfter|TestExclusive_Call_concurrent')
echo "C(suite with patch) unexpected failures: [${c}]"
okA=$(echo "$a" | grep -c '^ok'); failB=$(echo "$b" | grep -c -E '^(FAIL|---)')
if [ "$okA" -ge 1 ] && [ "$failB" -ge 1 ] && [ -z "$c" ]; then echo "CONFIRMED $ID"; exit 0; else echo "NOT CONFIRMED $ID"; exit 1; fi
