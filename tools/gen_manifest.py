#!/usr/bin/env python3
"""Regenerates /verif/MANIFEST.json from the table below (claimed checks) and properties.jsonl (not_applicable for the rest)."""
import json, subprocess
props = [json.loads(l) for l in open('/verif/properties.jsonl')]
NOTE = ('TLC exhausts the specification only for the small constants of the .cfg; the binding to the code is by validating recorded '
        'executions against the specification (exact for those executions, sampled over schedules and programs); exact-quiescence '
        'verdicts trust runtime.Stack wait states (go1.23) and the tw0/tw1 hooks that bracket every timed wait of the library')
TECH = 'TLA+ spec model-checked with TLC + trace validation (TLC) of real executions recorded under a gate-controlled scheduler and free-running'
C = {
 'C01': ('BufferL1 FIFO/AppendOnly model-checked; real Buffer histories (gate-scheduled and free-running, batched concurrent producers, consumers created/closed at arbitrary times, producers reusing their slices) validated against BufferL1', '5.1, 7'),
 'C02': ('transaction step properties model-checked on BufferL1; histories with Commit/Rollback/Range/Buffer.Range on shared consumers validated against BufferL1, including the control flow of bigbuff.Range (commit only after the callback returned, rollback on panic / failed Get / failed Commit)', '5.1, 7'),
 'C03': ('Retention/NoEvictionWithoutConsumers/PastIsLoud model-checked with default and fixed cleaners; Size/Slice/Diff observations and the real size at exact quiescence validated against the model', '5.1, 7'),
 'C04': ('Reclaimed/FixedBound model-checked; at every exactly quiescent point of the real system (no runnable goroutine, no pending timer) the trace spec requires that the model cleaner has nothing left to do and that the real size equals the model size; property-driven scenario shapes (last commit with parked getters, slowest consumer closes, forced trims)', '5.1, 5.2, 7'),
 'C05': ('at every exactly quiescent point no pending Get/Close/Put may be completable according to BufferL1 (a lost wake-up is a call stuck although the spec enables its completion); failed Gets consume nothing (following Gets validated); schedules biased to hold goroutines between predicate evaluation and cond.Wait', '5.2, 7'),
 'C12': ('ClosedMeansClosed/CloseKeepsContents (Buffer) and the Close actions of ChannelL1 model-checked; close/cancel orders explored under gate schedules for Buffer, consumers and Channel; Close results, Done channels, later-call errors validated against the L1 specs; goroutine census after everything is closed', '5.1, 5.3, 7'),
 'C13': ('ChannelL1 (Lossless, TakenInOrder, OnlyCommitDrops, NothingTakenAfterCancel) model-checked; concurrent Get/Commit/Rollback/Buffer/Close histories validated as linearizable against ChannelL1, pending buffer and rollback counter compared at exact quiescence, source remainder compared at the end', '5.3, 7'),
 'C14': ('WorkersL2 (critical-section level) model-checked: exactly-once, bound, Wait, and no starvation under weak fairness with shrinking targets; real executions validated: function start/end events against the bound and exactly-once, results, Wait/Count, and at exact quiescence nothing queued unless a function is running', '5.6, 7'),
 'C15': ('NotifierL1 model-checked (eligibility, exactly-once per publish, registry frozen while publishing); real publishes with every order of readiness/cancellation chosen by the gate scheduler validated: who received what, return condition, panics only where specified, values int/string/nil over five element types', '5.7, 7'),
 'C19': ('every case of a finite universe (parameter types x variadic x argument kinds incl. untyped/typed nil; result types x target kinds incl. nil/wrong/non-pointer; slice targets) is executed by the real Call and compared by TLC with the TLA+ transcription of the rules (exhaustive for the universe in the thorough tier)', '5.9, 7'),
}
checks = []
for pid, (txt, ref) in C.items():
    checks.append(dict(property_id=pid, quick_cmd=f'bin/check {pid} --tier quick', thorough_cmd=f'bin/check {pid} --tier thorough',
        evidence_file=f'/verif/evidence/{pid}.json', replay_cmd_template=f'bin/check {pid} --replay {{path}}', engine='tlc-conformance',
        level_claimed=dict(category='model_checking', text=txt, design_ref=ref), level_note=NOTE,
        technique=TECH if pid != 'C19' else 'TLA+ transcription of the call rules; exhaustive case enumeration executed by the real code, every case checked by TLC against the spec'))
na = [dict(property_id=p['id'], reason='check not built yet in this round (work in progress; see DESIGN.md section 9)') for p in props if p['id'] not in C]
commits = subprocess.run(['git', '-C', '/repo', 'log', '--format=%h %s'], capture_output=True, text=True).stdout.splitlines()
hook_commits = [c.split()[0] for c in commits if c.split(' ', 1)[1].startswith('verif:')]
m = dict(version=1,
  setup_cmd='cd /verif/harness && cp /repo/go.sum . && GOFLAGS=-mod=mod GOPROXY=off GOSUMDB=off GOTOOLCHAIN=local go build -tags verif -o /verif/.work/bin/harness . ',
  hooks=dict(guard='verif', enable='go build -tags verif (the harness module replaces github.com/joeycumines/go-bigbuff with /repo)',
     baseline_off_cmd='cd /repo && go test -vet=off -count=1 -timeout 25m ./...', source_commits=hook_commits[::-1], add_only=True),
  engines=[dict(name='tlc-conformance', path='/verif/bin/check', serves_properties=list(C), kind_free_text='TLA+ specifications in /verif/spec checked with TLC; Go harness in /verif/harness runs the real code under a gate-controlled scheduler or free-running and records traces; TLC validates the traces against the specifications')],
  checks=checks, not_applicable=na,
  notes='known findings (all fixed by fix: commits in /repo): /verif/known_findings.json; seeded mutants: /verif/seeded/')
json.dump(m, open('/verif/MANIFEST.json', 'w'), indent=1)
print('claimed', len(checks), 'not_applicable', len(na), 'hooks', hook_commits[::-1])
