#!/usr/bin/env python3
"""Print the execution of a trace file that contains a given line (1-based), marking the line."""
import sys,json
path,line=sys.argv[1],int(sys.argv[2])
lines=open(path).read().splitlines()
start=line
while start>1 and '"ev":"reset"' not in lines[start-1]: start-=1
end=line
while end<len(lines) and '"ev":"reset"' not in lines[end]: end+=1
lo=int(sys.argv[3]) if len(sys.argv)>3 else 0
for i in range(start,end+1):
    if lo and i<line-lo: continue
    mark='>>' if i==line else '  '
    print(f'{mark}{i}: {lines[i-1]}')
