#!/bin/bash
# seed_matrix.sh [tier] [jobs] : applies every kept seeded change (seeded/<id>/patch.diff) in a scratch worktree and runs the
# check of its property against it; prints one line per seed (CAUGHT n / MISSED). Regression test of the checks themselves.
TIER=${1:-quick}; JOBS=${2:-3}
cd /verif
run() {
  id=$1
  prop=$(python3 -c "import json;print(json.load(open('/verif/seeded/$id/meta.json'))['property'])")
  out=$(VERIF_WORK_SUFFIX=.sm_$id tools/try_mutant.sh /verif/seeded/$id/patch.diff $TIER $prop 2>&1)
  n=$(echo "$out" | grep -o 'violations=[0-9]*' | tail -1 | cut -d= -f2)
  rc=$(echo "$out" | grep -o 'rc=[0-9]*' | head -1)
  if [ "${n:-0}" -gt 0 ]; then echo "$id $prop CAUGHT $n $rc"; else echo "$id $prop MISSED $rc $(echo "$out" | tail -1 | cut -c1-120)"; fi
  rm -rf /verif/.work/*.sm_$id
}
export -f run; export TIER
ls seeded | grep -v '^_' | xargs -P $JOBS -I{} bash -c 'run {}'
