#!/bin/bash
# usage: try_mutant.sh <patch.diff> <tier> <pid> [<pid>...]
# applies the patch in a scratch worktree of /repo HEAD (never in /repo itself) and runs the checks against it (VERIF_REPO)
set -u
PATCH=$1; TIER=$2; shift 2
WT=/tmp/try/$$
mkdir -p /tmp/try
git -C /repo worktree add --detach "$WT" HEAD -q || exit 2
trap 'git -C /repo worktree remove --force "$WT" 2>/dev/null' EXIT
( cd "$WT" && { git apply "$PATCH" 2>/dev/null || patch -p1 -s -F3 --no-backup-if-mismatch < "$PATCH"; } ) || { echo "patch does not apply"; exit 2; }
cd /verif
for pid in "$@"; do
  out=$(VERIF_REPO="$WT" bin/check "$pid" --tier "$TIER" 2>&1); rc=$?
  echo "== $pid rc=$rc $(echo "$out" | grep -c '^VIOLATION') violation line(s): $(echo "$out" | grep -A1 '^VIOLATION' | grep -v '^VIOLATION' | head -1 | cut -c1-220)"
  echo "$out" | tail -1
done
