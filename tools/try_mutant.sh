#!/bin/bash
# usage: try_mutant.sh <patch.diff> <tier> <pid> [<pid>...]  -- applies the patch to /repo, runs the checks, ALWAYS reverts
set -u
PATCH=$1; TIER=$2; shift 2
cd /repo || exit 2
if [ -n "$(git status --porcelain)" ]; then echo "/repo not clean"; exit 2; fi
git apply "$PATCH" 2>/dev/null || patch -p1 -s -F3 --no-backup-if-mismatch < "$PATCH" || { echo "patch does not apply"; exit 2; }
trap 'git -C /repo checkout -- . ' EXIT
cd /verif
for pid in "$@"; do
  out=$(bin/check "$pid" --tier "$TIER" 2>&1); rc=$?
  echo "== $pid rc=$rc $(echo "$out" | grep -c '^VIOLATION') violation line(s): $(echo "$out" | grep -A1 '^VIOLATION' | grep -v '^VIOLATION' | head -1 | cut -c1-220)"
  echo "$out" | tail -1
done
