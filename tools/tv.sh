#!/bin/bash
# usage: tv.sh <spec-basename> <trace> <prop> [workdir]   -- runs one trace validation; prints TVMARK line and TLC verdict
set -u
SPEC=$1; TRACE=$2; PROP=${3:-all}; WD=${4:-/verif/.work/tv.$$}
mkdir -p "$WD" && cp /verif/spec/*.tla /verif/spec/*.cfg "$WD"/ && cd "$WD" || exit 2
TRACE="$TRACE" PROP="$PROP" JAVA_TOOL_OPTIONS="-Xss256m -Dtlc2.tool.queue.IStateQueue=StateDeque" \
  timeout ${TV_TIMEOUT:-600} tlc -workers 1 -metadir "$WD/md" -config "$SPEC.cfg" "$SPEC.tla" > "$WD/tlc.out" 2>&1
rc=$?
grep -E 'TVMARK|Error|Invariant|states generated|Finished in' "$WD/tlc.out" | head -20
exit $rc
