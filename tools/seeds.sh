#!/bin/bash
# seeds.sh <tier> <seed...>: run every claimed check (or those in $PIDS) with the given seeds against $VERIF_REPO or /repo
TIER=$1; shift
cd /verif
export VERIF_WORK_SUFFIX=_bg$$
for seed in "$@"; do
  for pid in ${PIDS:-$(python3 -c "import json; print(' '.join(c['property_id'] for c in json.load(open('/verif/MANIFEST.json'))['checks']))")}; do
    out=$(VERIF_SEED=$seed bin/check $pid --tier $TIER 2>&1); rc=$?
    echo "seed=$seed $pid rc=$rc $(echo "$out" | tail -1)"
    if [ $rc -ne 0 ]; then echo "$out" | grep -A1 -E "^VIOLATION|^INFRA" | head -6; fi
  done
done
