#!/usr/bin/env python3
"""One-shot helper used to add verifAt() hook lines to /repo (add-only). Kept for documentation of the hook sites."""
import sys,re
# (file, anchor substring, occurrence (1-based), 'before'|'after', point, obj expr, n expr)
H=[
 # sync.go
 ('sync.go','<-ctx.Done()',1,'before','sync.wc.watch.recv','cond','0'),
 ('sync.go','l.Lock()',1,'before','sync.wc.watch.lock','cond','0'),
 ('sync.go','cond.Wait()',1,'before','sync.wc.wait','cond','0'),
 # buffer.go
 ('buffer.go','b.mutex.Lock()',1,'before','buffer.close.lock','b','0'),
 ('buffer.go','b.cond.Wait()',1,'before','buffer.close.wait','b','0'),
 ('buffer.go','b.mutex.Lock()',2,'before','buffer.put.lock','b','len(values)'),
 ('buffer.go','b.mutex.Lock()',3,'before','buffer.newconsumer.lock','b','0'),
 ('buffer.go','<-c.ctx.Done()',1,'before','buffer.consumer.watch.recv','c','0'),
 ('buffer.go','b.mutex.RLock()',2,'before','buffer.slice.rlock','b','0'),
 ('buffer.go','b.mutex.RLock()',3,'before','buffer.size.rlock','b','0'),
 ('buffer.go','b.mutex.Lock()',4,'before','buffer.setcleaner.lock','b','0'),
 ('buffer.go','cm.mutex.Lock()',1,'before','buffer.diff.lock','cm','0'),
 ('buffer.go','b.mutex.RLock()',5,'before','buffer.diff.rlock','b','0'),
 ('buffer.go','b.mutex.Lock()',5,'before','buffer.delete.lock','b','0'),
 ('buffer.go','b.mutex.Lock()',6,'before','buffer.commit.lock','b','offset'),
 ('buffer.go','b.mutex.RLock()',6,'before','buffer.getasync.rlock','b','offset'),
 ('buffer.go','b.mutex.Lock()',7,'before','buffer.getasync.waiter.lock','b','offset'),
 ('buffer.go','mutex.Lock()',10,'before','buffer.cleanup.fn.lock','b','0'),
 ('buffer.go','mutex.Lock()',11,'before','buffer.timer.tw1','b','0'),
 ('buffer.go','<-timer.C',1,'before','buffer.timer.tw0','b','0'),
 ('buffer.go','b.mutex.Lock()',9,'before','buffer.cleanup.lock','b','0'),
 # consumer.go
 ('consumer.go','c.mutex.Lock()',1,'before','consumer.close.lock','c','0'),
 ('consumer.go','c.cond.Wait()',1,'before','consumer.close.wait','c','0'),
 ('consumer.go','c.mutex.Lock()',3,'before','consumer.get.lock','c','0'),
 ('consumer.go','result := <-out',1,'before','consumer.get.recv','c','0'),
 ('consumer.go','c.mutex.Lock()',4,'before','consumer.commit.lock','c','0'),
 ('consumer.go','c.mutex.Lock()',5,'before','consumer.rollback.lock','c','0'),
 # channel.go
 ('channel.go','c.mutex.Lock()',1,'before','channel.buffer.lock','c','0'),
 ('channel.go','c.mutex.Lock()',2,'before','channel.close.lock','c','0'),
 ('channel.go','c.mutex.Lock()',4,'before','channel.get.lock','c','0'),
 ('channel.go','select {',1,'before','channel.get.tw0','c','0'),
 ('channel.go','// as does a context cancel (which will bail out next iteration)\n\t\t}',1,'after','channel.get.tw1','c','0'),
 ('channel.go','c.mutex.Lock()',5,'before','channel.commit.lock','c','0'),
 ('channel.go','c.mutex.Lock()',6,'before','channel.rollback.lock','c','0'),
 ('channel.go','<-c.ctx.Done()',2,'before','channel.cleanup.recv','c','0'),
 # chancaster.go
 ('chancaster.go','x.mutex.Lock()',1,'before','caster.send.lock','x','0'),
 ('chancaster.go','state = x.state.Load()',1,'before','caster.send.load','x','0'),
 ('chancaster.go','if x.state.CompareAndSwap(state, uint64(receivers)<<32|uint64(tracker)) {',1,'before','caster.send.cas','x','0'),
 ('chancaster.go','x.C <- value',1,'before','caster.send.send','x','0'),
 ('chancaster.go','state = x.state.Load()',2,'before','caster.send.final','x','0'),
 ('chancaster.go','x.mutex.RLock()',1,'before','caster.add.rlock','x','delta'),
 ('chancaster.go','state := x.state.Add(^(',1,'before','caster.add.dec','x','delta'),
 ('chancaster.go','<-x.C',1,'before','caster.add.recv','x','0'),
 # chanpubsub.go
 ('chanpubsub.go','case v, ok := <-x.ping.C:',1,'select-before','cps.iter.select','x','0'),
 ('chanpubsub.go','x.sendMu.Lock()',1,'before','cps.send.sendmu.lock','x','0'),
 ('chanpubsub.go','x.sendingMu.Lock()',1,'before','cps.send.sendingmu.lock','x','0'),
 ('chanpubsub.go','subscribers := int(x.subscribers.Load())',1,'before','cps.send.load','x','0'),
 ('chanpubsub.go','x.pongC.L.Lock()',1,'before','cps.send.pong.lock','x','sent'),
 ('chanpubsub.go','x.pongC.Wait()',1,'before','cps.send.pong.wait','x','0'),
 ('chanpubsub.go','ok := x.sendingMu.TryRLock()',1,'before','cps.add.tryrlock','x','delta'),
 ('chanpubsub.go','x.checkBroken() // attempts to mitigate deadlock risk on misuse...',1,'before','cps.add.spin','x','0'),
 ('chanpubsub.go','subscribers = x.addSubscribers(delta)',1,'before','cps.add.dec','x','delta'),
 ('chanpubsub.go','x.sendingMu.RLock()',1,'before','cps.add.rlock','x','delta'),
 ('chanpubsub.go','x.pongC.L.Lock()',2,'before','cps.wait.lock','x','0'),
 ('chanpubsub.go','x.pongC.Wait()',2,'before','cps.wait.wait','x','0'),
 # exclusive.go
 ('exclusive.go','e.mutex.Lock()',1,'before','excl.call.emu1.lock','e','0'),
 ('exclusive.go','item.mutex.Lock()',1,'before','excl.call.item.lock','e','0'),
 ('exclusive.go','e.mutex.Lock()',2,'before','excl.call.emu2.lock','e','0'),
 ('exclusive.go','for item.running {',1,'before','excl.run.start','e','0'),
 ('exclusive.go','item.cond.Wait()',1,'before','excl.run.wait','e','0'),
 ('exclusive.go','time.Sleep(wait)',1,'before','excl.run.tw0','e','0'),
 ('exclusive.go','time.Sleep(wait)',1,'after','excl.run.tw1','e','0'),
 ('exclusive.go','e.mutex.Lock()',3,'before','excl.run.emu.lock','e','0'),
 ('exclusive.go','item.mutex.Lock()',3,'before','excl.resolve.lock','e','0'),
 ('exclusive.go','nextItem.mutex.Lock()',1,'before','excl.run.next.lock','e','0'),
 ('exclusive.go','e.mutex.Lock()',4,'before','excl.run.del.lock','e','0'),
 ('exclusive.go','select {',1,'before','excl.ratelimit.tw0','nil','0'),
 ('exclusive.go','case <-timer.C:\n\t\t\t\t}',1,'after','excl.ratelimit.tw1','nil','0'),
 # workers.go
 ('workers.go','w.mutex.Lock()',1,'before','workers.call.lock','w','count'),
 ('workers.go','result := <-output',1,'before','workers.call.recv','w','0'),
 ('workers.go','w.mutex.Lock()',2,'before','workers.wait.lock','w','0'),
 ('workers.go','w.cond.Wait()',1,'before','workers.wait.wait','w','0'),
 ('workers.go','w.mutex.Lock()',3,'before','workers.count.lock','w','0'),
 ('workers.go','w.mutex.Lock()',4,'before','workers.worker.lock','w','0'),
 # worker.go
 ('worker.go','x.mu.Lock()',1,'before','worker.do.lock','x','0'),
 ('worker.go','x.mu.Lock()',2,'before','worker.wait.lock','x','0'),
 ('worker.go','wg.Wait()',1,'before','worker.wait.wgwait','x','0'),
 ('worker.go','close(x.stop)',1,'before','worker.wait.stop','x','0'),
 ('worker.go','<-x.done',1,'before','worker.wait.recv','x','0'),
 ('worker.go','fn(x.stop)',1,'before','worker.do.start','x','0'),
 ('worker.go','close(x.done)',1,'before','worker.do.close','x','0'),
 # notifier.go
 ('notifier.go','n.mutex.Lock()',1,'before','notifier.sub.lock','n','0'),
 ('notifier.go','<-ctx.Done()',1,'before','notifier.subcancel.recv','n','0'),
 ('notifier.go','n.mutex.Lock()',2,'before','notifier.unsub.lock','n','0'),
 ('notifier.go','n.mutex.RLock()',1,'before','notifier.pub.rlock','n','0'),
 ('notifier.go','exitIndex, _, _ = reflect.Select(',1,'var-before','notifier.pub.select','n','len(successCases)'),
 # attempt.go
 ('attempt.go','select {',1,'before','attempt.tw0','nil','i'),
 ('attempt.go','case t = <-ticker.C:\n\t\t\t}',1,'after','attempt.tw1','nil','i'),
 ('attempt.go','select {',2,'before','attempt.send','nil','i'),
 # context.go
 ('context.go','wg.Wait()',1,'before','ctx.conflated.wgwait','nil','0'),
 ('context.go','if stop() {',1,'before','ctx.chain.stop','nil','0'),
 ('context.go','for _, stop := range s {',1,'before','ctx.combine.stop','nil','len(s)'),
 # retry.go
 ('retry.go','select {',1,'before','retry.tw0','nil','0'),
 ('retry.go','case <-timer.C:\n\t}',1,'after','retry.tw1','nil','0'),
 # bigbuff.go
 ('bigbuff.go','time.Sleep(startedAt.Add(d).Sub(time.Now()))',1,'before','minduration.tw0','nil','0'),
 ('bigbuff.go','time.Sleep(startedAt.Add(d).Sub(time.Now()))',1,'after','minduration.tw1','nil','0'),
]
def find_nth(s,sub,n):
    i=-1
    for _ in range(n):
        i=s.find(sub,i+1)
        if i<0: return -1
    return i
def main(root,only=None):
    byfile={}
    for h in H: byfile.setdefault(h[0],[]).append(h)
    for f,hs in byfile.items():
        if only and f not in only: continue
        s=open(root+'/'+f).read()
        orig=s
        # compute positions on the original text, then apply from the end
        ins=[]
        for (_,anchor,occ,mode,pt,obj,n) in hs:
            i=find_nth(orig,anchor,occ)
            if i<0: sys.exit(f'anchor not found: {f} {anchor!r} #{occ}')
            ls=orig.rfind('\n',0,i)+1
            indent=re.match(r'[\t ]*',orig[ls:]).group(0)
            line=f'{indent}verifAt("{pt}", {obj}, {n})\n'
            if mode=='before': pos=ls
            elif mode=='after':
                e=i+len(anchor); pos=orig.find('\n',e)+1
                # indentation of the anchor's last line
                ls2=orig.rfind('\n',0,e)+1
                indent=re.match(r'[\t ]*',orig[ls2:]).group(0)
                line=f'{indent}verifAt("{pt}", {obj}, {n})\n'
            elif mode=='select-before':
                # insert before the enclosing "select {" line preceding the anchor
                j=orig.rfind('select {',0,i); ls=orig.rfind('\n',0,j)+1
                indent=re.match(r'[\t ]*',orig[ls:]).group(0)
                line=f'{indent}verifAt("{pt}", {obj}, {n})\n'; pos=ls
            elif mode=='var-before':
                j=orig.rfind('var (',0,i); ls=orig.rfind('\n',0,j)+1
                indent=re.match(r'[\t ]*',orig[ls:]).group(0)
                line=f'{indent}verifAt("{pt}", {obj}, {n})\n'; pos=ls
            ins.append((pos,line))
        for pos,line in sorted(ins,key=lambda x:-x[0]):
            s=s[:pos]+line+s[pos:]
        open(root+'/'+f,'w').write(s)
        print(f, len(hs))
if __name__=='__main__':
    main(sys.argv[1], set(sys.argv[2:]) or None)
