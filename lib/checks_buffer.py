"""Checks for the Buffer family: C01 C02 C03 C04 C05 C12 (BufferL1 / BufferL2 + conformance)."""
import json, os
from vlib import *

FAMILY = {
    # pid: (harness profile, PROP selector of the trace spec)
    'C01': ('fifo', 'fifo'),
    'C02': ('txn', 'txn'),
    'C03': ('retention', 'retention'),
    'C04': ('reclaim', 'reclaim'),
    'C05': ('wake', 'wake'),
    'C12': ('close', 'close'),
}


def sig_of(rej):
    try:
        e = json.loads(rej['text'])
    except Exception:
        return 'end-of-trace'
    parts = [str(e.get('ev'))]
    for k in ('op', 'r', 'phase'):
        if k in e:
            parts.append(f'{k}={e[k]}')
    return ':'.join(parts)


def handle_rejections(ctx, rejs, stats, mode, prop, tag):
    for rj in rejs:
        ei = None
        for e in stats.get('exec_index', []):
            if e['exec'] == rj['exec']:
                ei = e
        sig = f'{tag}:{sig_of(rj)}'
        text = (f'recorded execution (mode {mode}) is not a behaviour of BufferL1 for PROP={prop}: rejected at event '
                f'#{rj["offset"]} of the execution: {rj["text"][:300]}')
        files = {'trace.ndjson': '\n'.join(rj['exec_lines']) + '\n',
                 'exec.json': dict(ei or {}, mode=mode, driver='buffer', prop=prop, spec='BufferTV'),
                 'rejected_event.json': rj['text']}
        report(ctx, sig, text, files)


def run(ctx):
    profile, prop = FAMILY[ctx.pid]
    build_harness(ctx)
    # 1. exhaustive model checking of the L1 specification (the oracle) for small constants
    if ctx.quick:
        run_mc(ctx, 'BufferMC', 'BufferMC_quick', workers=8, timeout=300)
    else:
        run_mc(ctx, 'BufferMC', 'BufferMC', workers=16, timeout=3000)
    extra_mc(ctx)
    # 2. conformance: controlled (gate-scheduled) executions of the real code, validated against BufferL1
    nc, nf = (70, 150) if ctx.quick else (1500, 4000)
    out, st = run_harness(ctx, 'buffer', 'modec', mode='c', profile=profile, seed=ctx.seed, n=nc)
    rej, nexec = validate(ctx, 'BufferTV', f'{out}/trace.ndjson', st, prop, 'tv_c', parallel=8 if ctx.quick else 16)
    ctx.conf.append(dict(mode='controlled', executions=st['executions'], steps=st['steps'], distinct_schedules=st['distinct_schedules'],
                         nontrivial=st['nontrivial'], stuck_terminals=st['stuck_terminals'], rejected=len(rej), gate_points=st.get('points')))
    ctx.distinct_nontrivial += st['nontrivial']
    ctx.samples += st.get('samples', [])[:1]
    handle_rejections(ctx, rej, st, 'c', prop, 'modeC')
    # 3. conformance: free-running executions (real scheduler, perturbed at the hook points)
    out, st = run_harness(ctx, 'buffer', 'modef', mode='f', profile=profile, seed=ctx.seed + 1000, n=nf)
    rej, nexec = validate(ctx, 'BufferTV', f'{out}/trace.ndjson', st, prop, 'tv_f', parallel=8 if ctx.quick else 16)
    ctx.conf.append(dict(mode='free', executions=st['executions'], distinct_histories=st['distinct_schedules'],
                         nontrivial=st['nontrivial'], rejected=len(rej)))
    ctx.distinct_nontrivial += st['nontrivial']
    ctx.samples += st.get('samples', [])[:1]
    handle_rejections(ctx, rej, st, 'f', prop, 'modeF')


def extra_mc(ctx):
    pass


def replay(ctx, path):
    """re-run a stored execution against the current tree and re-validate it"""
    build_harness(ctx)
    ei = json.load(open(f'{path}/exec.json'))
    out, st = run_harness(ctx, 'buffer', 'replay', mode=ei.get('mode', 'c'), profile='replay', replay=f'{path}/exec.json')
    rej, _ = validate(ctx, 'BufferTV', f'{out}/trace.ndjson', st, ei.get('prop', 'all'), 'tv_replay', parallel=1)
    if st.get('infra'):
        raise Infra(f'replay diverged from the stored schedule: {st["infra"]}')
    handle_rejections(ctx, rej, st, ei.get('mode', 'c'), ei.get('prop', 'all'), 'replay')
