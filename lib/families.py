"""Property table: which specification, model-checking jobs, harness driver/profile and trace-spec selector decide
each property.  All checks share one pipeline (lib/vlib.py):
  1. rebuild the harness from /repo's working tree (-tags verif)
  2. TLC: exhaustive model checking of the specification for the small constants of the .cfg (quick/thorough)
  3. run the real code: controlled (gate-scheduled) and free-running executions of generated programs
  4. TLC: validate every recorded execution against the specification (trace validation)
"""
import json
from vlib import *

# pid -> dict(driver, profile, prop, tv, mc_quick=[(spec,cfg)], mc_thorough=[...], n=(quick_c, quick_f, thorough_c, thorough_f))
F = {}


def fam(pids, **kw):
    for pid, (profile, prop) in pids.items():
        F[pid] = dict(kw, profile=profile, prop=prop)


fam({'C01': ('fifo', 'fifo'), 'C02': ('txn', 'txn'), 'C03': ('retention', 'retention'),
     'C04': ('reclaim', 'reclaim'), 'C05': ('wake', 'wake'), 'C12': ('close', 'close')},
    driver='buffer', tv='BufferTV', mc_quick=[('BufferMC', 'BufferMC_quick')], mc_thorough=[('BufferMC', 'BufferMC')],
    n=(70, 150, 1500, 4000))
# specification -> implementation for the Buffer: all call sequences of one caller up to a depth, per cleaner configuration
for _pid, _q, _t in (('C01', ['BufferGEN_quick'], ['BufferGEN']), ('C02', ['BufferGEN_quick'], ['BufferGEN']),
                     ('C03', ['BufferGEN_quick_fixed'], ['BufferGEN_fixed', 'BufferGEN_fixed0'])):
    F[_pid] = dict(F[_pid], gen=dict(spec='BufferGEN', cfgs_quick=_q, cfgs_thorough=_t, quick_sample=500))
# the lock / condition-variable level protocol of cleaner, cooldown timer, WaitCond watcher and a blocked Get; the _neg
# configurations switch a repaired / seeded defect back on and MUST be rejected by TLC
for _pid, _cfgs in {'C04': ['BufferL2', 'BufferL2_nocool', 'BufferL2_fixed', 'BufferL2_fixed0', 'BufferL2_d1_neg', 'BufferL2_d4_neg'],
                    'C05': ['BufferL2', 'BufferL2_nocool', 'BufferL2_wake_neg']}.items():
    F[_pid] = dict(F[_pid])
    F[_pid]['mc_quick'] = list(F[_pid]['mc_quick']) + [('BufferL2', c) for c in _cfgs]
    F[_pid]['mc_thorough'] = list(F[_pid]['mc_thorough']) + [('BufferL2', c) for c in _cfgs] + [('BufferL2', 'BufferL2_big')]
# C01: a large population (one batch of > 1000 values, one large shift), free-running only
F['C01'] = dict(F['C01'], legs=[dict(driver='buffer', profile='bulk', prop='fifo', tv='BufferTV', n=(0, 2, 0, 8), mc_quick=[], mc_thorough=[])])
# C05: WaitCond on its own (any cond / locker, nil context, invalid arguments): lost wake-ups at exact quiescence, "nil only
# after the predicate returned true with the lock held", watcher goroutine gone once WaitCond has returned
F['C05']['legs'] = [dict(driver='waitcond', profile='main', prop='all', tv='WaitCondTV', n=(160, 200, 2000, 6000), mc_quick=[], mc_thorough=[])]
# C04: bounded delay under sustained traffic (time-stamped Size observations; free-running only)
F['C04']['legs'] = [dict(driver='buffer', profile='sustain', prop='reclaim', tv='BufferTV', n=(0, 3, 0, 24), mc_quick=[], mc_thorough=[])]
F['C12']['legs'] = [dict(driver='channel', profile='close', prop='close', tv='ChannelTV', n=(60, 120, 1000, 3000),
                       mc_quick=[('ChannelMC', 'ChannelMC')], mc_thorough=[('ChannelMC', 'ChannelMC_big')]),
                  # SubscribeCancel's goroutine / registration must be gone once its context is cancelled (final census in NotifierTV)
                  dict(driver='notifier', profile='main', prop='all', tv='NotifierTV', n=(40, 80, 1000, 3000),
                       mc_quick=[('NotifierMC', 'NotifierMC_quick')], mc_thorough=[('NotifierMC', 'NotifierMC_quick')]),
                  # WaitCond's watcher goroutine is gone once the call has returned (also for contexts nobody can cancel)
                  dict(driver='waitcond', profile='excl', prop='all', tv='WaitCondTV', n=(60, 80, 1000, 3000), mc_quick=[], mc_thorough=[])]
fam({'C13': ('main', 'all')},
    driver='channel', tv='ChannelTV',
    # ChannelL2: the critical section of Get (lock, context check, receive) against parent cancellation and Close; its _neg
    # configuration is the negative control for the deviation LinLateTake of ChannelTV
    mc_quick=[('ChannelMC', 'ChannelMC'), ('ChannelL2', 'ChannelL2'), ('ChannelL2', 'ChannelL2_neg')],
    mc_thorough=[('ChannelMC', 'ChannelMC_big'), ('ChannelL2', 'ChannelL2_big'), ('ChannelL2', 'ChannelL2_neg')],
    n=(100, 300, 2000, 6000), gen=dict(spec='ChannelGEN', cfgs_quick=['ChannelGEN_quick'], cfgs_thorough=['ChannelGEN']))
fam({'C15': ('main', 'all')},
    driver='notifier', tv='NotifierTV', mc_quick=[('NotifierMC', 'NotifierMC_quick')], mc_thorough=[('NotifierMC', 'NotifierMC_big')],
    n=(70, 120, 2000, 4000))
fam({'C14': ('main', 'all')},
    driver='workers', tv='WorkersTV', mc_quick=[('WorkersL2', 'WorkersL2'), ('WorkersL2', 'WorkersL2_neg')],
    mc_thorough=[('WorkersL2', 'WorkersL2_big'), ('WorkersL2', 'WorkersL2_neg')],
    n=(60, 200, 1500, 5000))
fam({'C17': ('main', 'all')},
    driver='worker', tv='WorkerTV', mc_quick=[('WorkerL2', 'WorkerL2')], mc_thorough=[('WorkerL2', 'WorkerL2_big')],
    n=(80, 300, 2000, 6000))
F['C17'] = dict(F['C17'], l2gate=dict(driver='worker', tv='WorkerL2TV', n=(100, 1500)),
                # real contention: thousands of back-to-back Do / done pairs per execution (free-running only)
                legs=[dict(driver='worker', profile='stress', prop='all', tv='WorkerTV', n=(0, 300, 0, 1500), mc_quick=[], mc_thorough=[])])
F['C14'] = dict(F['C14'], l2gate=dict(driver='workers', tv='WorkersL2TV', n=(60, 1000)),
                legs=[dict(driver='workers', profile='stress', prop='all', tv='WorkersTV', n=(0, 100, 0, 600), mc_quick=[], mc_thorough=[])])
fam({'C09': ('keys', 'all'), 'C10': ('main', 'all')},
    driver='exclusive', tv='ExclusiveTV',
    mc_quick=[('ExclusiveL2', 'ExclusiveL2'), ('ExclusiveL2', 'ExclusiveL2_neg'), ('ExclusiveL2', 'ExclusiveL2_witness')],
    mc_thorough=[('ExclusiveL2', 'ExclusiveL2_big'), ('ExclusiveL2', 'ExclusiveL2_neg'), ('ExclusiveL2', 'ExclusiveL2_witness')],
    n=(80, 300, 2000, 6000))
# real contention: a few hundred back-to-back calls per execution (free-running, no perturbation)
for _pid in ('C09', 'C10'):
    F[_pid] = dict(F[_pid], legs=[dict(driver='exclusive', profile='stress', prop='all', tv='ExclusiveTV', n=(0, 40, 0, 300), mc_quick=[], mc_thorough=[])])
fam({'C06': ('main', 'all'), 'C07': ('main', 'all')},
    driver='pubsub', tv='PubSubTV',
    mc_quick=[('PubSubL2', 'PubSubL2')], mc_thorough=[('PubSubL2', 'PubSubL2'), ('PubSubL2', 'PubSubL2_2s'), ('PubSubL2', 'PubSubL2_3u')],
    n=(80, 300, 2000, 8000))
# C06: a larger population (one back-to-back sender, two standing subscribers, waves of 24-36 short-lived SubscribeContext
# subscribers), free-running only
F['C06'] = dict(F['C06'], legs=[dict(driver='pubsub', profile='herd', prop='all', tv='PubSubTV', n=(0, 1, 0, 6), mc_quick=[], mc_thorough=[])])
fam({'C08': ('main', 'all')},
    driver='caster', tv='CasterTV',
    mc_quick=[('PubSubL2', 'PubSubL2')], mc_thorough=[('PubSubL2', 'PubSubL2'), ('PubSubL2', 'PubSubL2_2s'), ('PubSubL2', 'PubSubL2_3u')],
    n=(80, 300, 2000, 8000))
# real parallelism: rounds in which a Send starts at the same instant as several deregistrations (free-running only)
F['C08'] = dict(F['C08'], legs=[dict(driver='caster', profile='stress', prop='all', tv='CasterTV', n=(0, 40, 0, 400), mc_quick=[], mc_thorough=[])])
fam({'C20': ('main', 'all')},
    driver='attempt', tv='AttemptTV', mc_quick=[('AttemptMC', 'AttemptMC')], mc_thorough=[('AttemptMC', 'AttemptMC_big')],
    n=(120, 150, 3000, 2000))
# timestamps at very small rates (free-running only: the interesting behaviour is the ticker's, not a schedule)
F['C20']['legs'] = [dict(driver='attempt', profile='ts', prop='all', tv='AttemptTV', n=(0, 6000, 0, 60000))]


def sig_of(rej):
    try:
        e = json.loads(rej['text'])
    except Exception:
        return 'end-of-trace'
    parts = [str(e.get('ev'))]
    for k in ('op', 'r', 'phase'):
        if k in e:
            parts.append(f'{k}={e[k]}')
    return ':'.join(parts)


def handle_rejections(ctx, f, rejs, stats, mode, tag):
    for rj in rejs:
        ei = None
        for e in stats.get('exec_index', []):
            if e['exec'] == rj['exec']:
                ei = e
        sig = f'{tag}:{sig_of(rj)}'
        text = (f'recorded execution (mode {mode}) is not a behaviour of {f["tv"]} for PROP={f["prop"]}: rejected at event '
                f'#{rj["offset"]} of the execution: {rj["text"][:300]}')
        files = {'trace.ndjson': '\n'.join(rj['exec_lines']) + '\n',
                 'exec.json': dict(ei or {}, mode=mode, driver=f['driver'], prop=f['prop'], spec=f['tv']),
                 'rejected_event.json': rj['text']}
        report(ctx, sig, text, files)


def conformance(ctx, f, mode, n, seed, name):
    try:
        out, st = run_harness(ctx, f['driver'], name, mode=mode, profile=f['profile'], seed=seed, n=n)
    except Crash as c:
        first = str(c).splitlines()[0][:300]
        report(ctx, f'crash:{"modeC" if mode == "c" else "modeF"}:{first[:80]}',
               f'the process running the real code was killed by a panic raised in a goroutine of the library (driver {f["driver"]}, profile {f["profile"]}, mode {mode}, seed {seed}): {first}',
               {'panic.txt': str(c), 'exec.json': dict(driver=f['driver'], profile=f['profile'], mode=mode, seed=seed, n=n, crash=True)})
        ctx.evaluations += 1
        return
    rej, nexec = validate(ctx, f['tv'], f'{out}/trace.ndjson', st, f['prop'], 'tv_' + name, parallel=8 if ctx.quick else 16)
    ctx.conf.append(dict(mode='controlled' if mode == 'c' else 'free', executions=st['executions'], steps=st.get('steps'),
                         distinct=st['distinct_schedules'], nontrivial=st['nontrivial'], stuck_terminals=st.get('stuck_terminals'),
                         rejected=len(rej), gate_points=st.get('points') if mode == 'c' else None, events=st.get('events')))
    ctx.distinct_nontrivial += st['nontrivial']
    ctx.samples += st.get('samples', [])[:1]
    handle_rejections(ctx, f, rej, st, mode, 'modeC' if mode == 'c' else 'modeF')
    # situations the trace specification names as known findings: listed in known_findings.json -> KNOWN-FINDING line,
    # not listed -> violation
    for kname, cnt in sorted(getattr(ctx, 'tv_known', {}).items()):
        if kname not in ctx.__dict__.setdefault('tv_known_reported', set()):
            ctx.tv_known_reported.add(kname)
            report(ctx, f'known:{kname}', f'{f["tv"]} met the situation "{kname}" in {cnt} validation run(s) (driver {f["driver"]}, mode {mode})',
                   {'exec.json': dict(driver=f['driver'], profile=f['profile'], mode=mode, seed=seed, n=n, known=kname)})


def generated(ctx, f):
    """specification -> implementation: TLC enumerates every behaviour (call sequence) of the generator spec up to its
    depth; each is replayed against the real code under the controlled scheduler and validated like any other trace"""
    g = f['gen']
    progs = []
    for cfg in (g['cfgs_quick'] if ctx.quick else g['cfgs_thorough']):
        job, out = run_mc(ctx, g['spec'], cfg, workers=1, timeout=1800, name='gen_' + cfg)
        progs += re.findall(r'<<"GEN", "(.*)">>', out)
    progs = sorted(set(progs))
    cfg = '+'.join(g['cfgs_quick'] if ctx.quick else g['cfgs_thorough'])
    if not progs:
        raise Infra(f'{g["spec"]}/{cfg} generated no behaviours')
    total = len(progs)
    cap = g.get('quick_sample', 1200)
    if ctx.quick and len(progs) > cap:
        import random
        random.Random(ctx.seed).shuffle(progs)
        progs = sorted(progs[:cap])          # quick tier: a seeded sample; the thorough tier replays all of them
    # replay in parallel shards (one harness process each: the controlled scheduler is per process)
    from concurrent.futures import ThreadPoolExecutor
    nshard = 1 if len(progs) <= 1500 else 12
    shards = [progs[i::nshard] for i in range(nshard)]

    def one(i):
        pf = f'{ctx.work}/gen_programs{i}.ndjson'
        with open(pf, 'w') as fh:
            for p in shards[i]:
                fh.write(p.replace('\\"', '"') + '\n')
        try:
            return run_harness(ctx, f['driver'], f'gen{i}', mode='c', profile='gen', seed=ctx.seed + i, programs=pf, timeout=3000)
        except Crash as c:
            return c
    with ThreadPoolExecutor(nshard) as ex:
        results = list(ex.map(one, range(nshard)))
    nrej = nex = 0
    for i, res in enumerate(results):
        if isinstance(res, Crash):
            first = str(res).splitlines()[0][:300]
            report(ctx, f'crash:gen:{first[:80]}', f'the process replaying TLC-generated programs (shard {i}) was killed by a panic raised in a goroutine of the library: {first}',
                   {'panic.txt': str(res), 'exec.json': dict(driver=f['driver'], profile='gen', mode='c', seed=ctx.seed + i, crash=True)})
            continue
        out_dir, st = res
        rej, nexec = validate(ctx, f['tv'], f'{out_dir}/trace.ndjson', st, f['prop'], f'tv_gen{i}', parallel=8 if ctx.quick else 16)
        nrej += len(rej)
        nex += st['executions']
        handle_rejections(ctx, f, rej, st, 'c', f'gen{i}')
    ctx.conf.append(dict(mode='generated (TLC behaviours replayed)', generator=f'{g["spec"]}/{cfg}', behaviours_generated=total, behaviours_replayed=len(progs), executions=nex,
                         exhaustive_to_depth=(len(progs) == total), rejected=nrej))
    ctx.distinct_nontrivial += len(progs)
    ctx.samples += [dict(generated_program=json.loads(progs[len(progs) // 2].replace('\\"', '"')))]


def l2gate(ctx, f):
    """gate-level binding of an L2 specification: every scheduling decision of controlled executions is a step line; the
    steps that carry critical sections are mapped to L2 actions which must be enabled; L2 invariants are checked in every
    state the real execution drives the model into. Invariant violated -> violation; protocol no longer followed -> the
    model has drifted from the code and the check vouches for nothing (exit 2), unless violations were found anyway"""
    g = f['l2gate']
    n = g['n'][0] if ctx.quick else g['n'][1]
    try:
        out, st = run_harness(ctx, g['driver'], 'l2gate', mode='c', profile=g.get('profile', 'main'), seed=ctx.seed + 500, n=n, gates=1)
    except Crash as c:
        first = str(c).splitlines()[0][:300]
        report(ctx, f'crash:l2gate:{first[:80]}', f'the process running the real code was killed by a panic raised outside the harness (l2gate leg): {first}',
               {'panic.txt': str(c), 'exec.json': dict(driver=g['driver'], profile=g.get('profile', 'main'), mode='c', seed=ctx.seed + 500, n=n, crash=True)})
        return
    trace = f'{out}/trace.ndjson'
    res = tv_once(ctx, g['tv'], g['tv'], trace, 'all', 'tv_l2gate', timeout=900)
    txt = open(f'{ctx.work}/tv_l2gate/tlc.out').read()
    steps = sum(1 for ln in open(trace) if '"ev":"step"' in ln)
    ctx.conf.append(dict(mode='controlled, gate-level (L2 binding)', spec=g['tv'], executions=st['executions'], step_lines=steps, accepted=res['accepted'],
                         tv_states=res['distinct']))
    ctx.tv_states = getattr(ctx, 'tv_states', 0) + res['distinct']
    ctx.evaluations += st['executions']
    if res['accepted']:
        ctx.traces_ok += st['executions']
        return
    lines = open(trace).read().splitlines()
    b = min(res['mark'], len(lines) - 1)
    s0 = b
    while s0 > 0 and '"ev":"reset"' not in lines[s0]:
        s0 -= 1
    e0 = b + 1
    while e0 < len(lines) and '"ev":"reset"' not in lines[e0]:
        e0 += 1
    inv = re.search(r'Invariant (\w+) is violated', txt)
    files = {'trace.ndjson': '\n'.join(lines[s0:e0]) + '\n', 'rejected_event.json': lines[b] if b < len(lines) else '',
             'exec.json': dict(next((x for x in st.get('exec_index', []) if x['exec'] == json.loads(lines[s0]).get('exec')), {}), mode='c', driver=g['driver'], spec=g['tv'], gates=1)}
    if inv:
        report(ctx, f'l2gate:invariant:{inv.group(1)}', f'a real execution drives {g["tv"]} into a state that violates {inv.group(1)} (line {b + 1}: {lines[b][:200]})', files)
        return
    if ctx.violations:
        ctx.notes.append(f'l2gate: the code no longer follows {g["tv"]} (first unexplained line {b + 1}: {lines[b][:160]})')
        return
    raise Infra(f'MODEL-DRIFT: the code no longer follows the protocol of {g["tv"]} (first unexplained line {b + 1}: {lines[b][:200]}); '
                f'the model-checking results of this check say nothing about this code any more')


def bulk_extra(ctx, f):
    """C01 with large batches under real contention: driver "bulk", checked without search by BulkTV"""
    n = 6 if ctx.quick else 80
    try:
        out, st = run_harness(ctx, 'bulk', 'bulk', seed=ctx.seed, n=n)
    except Crash as c:
        first = str(c).splitlines()[0][:300]
        report(ctx, f'crash:bulk:{first[:80]}', f'the bulk driver was killed by a panic raised outside the harness: {first}',
               {'panic.txt': str(c), 'exec.json': dict(driver='bulk', seed=ctx.seed, n=n, crash=True)})
        return
    trace = f'{out}/trace.ndjson'
    nl, bad = tv_cases(ctx, 'BulkTV', trace, 'tv_bulk')
    lines = open(trace).read().splitlines()
    ctx.evaluations += st['executions']
    ctx.traces_ok += st['executions'] - len(bad)
    ctx.distinct_nontrivial += st['executions']
    ctx.conf.append(dict(mode='free (stress, large batches)', spec='BulkTV', executions=st['executions'],
                         batches=sum(1 for ln in lines if '"ev":"putr"' in ln), disagreeing=len(bad)))
    for k, b in enumerate(bad[:5]):
        s0 = b - 1
        while s0 > 0 and '"ev":"reset"' not in lines[s0]:
            s0 -= 1
        report(ctx, f'bulk:slicer:{k}', f'the final contents of a Buffer filled by concurrent large Puts are not the batches, unsplit and in order (BulkTV): {lines[b - 1][:300]}',
               {'trace.ndjson': '\n'.join(lines[s0:b]) + '\n', 'exec.json': dict(driver='bulk', seed=ctx.seed, n=n, spec='BulkTV')})


F['C01']['extra'] = bulk_extra


def run(ctx):
    f = F[ctx.pid]
    if 'custom' in f:
        return f['custom'](ctx)
    build_harness(ctx)
    mcs = list(f['mc_quick'] if ctx.quick else f['mc_thorough'])
    for leg in f.get('legs', []):
        mcs += list(leg.get('mc_quick' if ctx.quick else 'mc_thorough', []))
    for spec, cfg in mcs:
        if cfg.endswith('_neg') or cfg.endswith('_witness'):
            # negative control / reachability witness: TLC MUST report a violation (the model can tell the difference)
            job, out = run_mc(ctx, spec, cfg, workers=8, timeout=600, expect_ok=False)
            if job['ok']:
                raise Infra(f'negative control {spec}/{cfg} unexpectedly passed: the model has lost its sensitivity')
            continue
        run_mc(ctx, spec, cfg, workers=8 if ctx.quick else 16, timeout=300 if ctx.quick else 3000)
    legs = [f] + [dict(f, **leg) for leg in f.get('legs', [])]
    for i, leg in enumerate(legs):
        qc, qf, tc, tf = leg['n']
        nc, nf = (qc, qf) if ctx.quick else (tc, tf)
        tag = '' if i == 0 else f'_{leg["driver"]}'
        if nc:
            conformance(ctx, leg, 'c', nc, ctx.seed, 'modec' + tag)
        if nf:
            conformance(ctx, leg, 'f', nf, ctx.seed + 1000, 'modef' + tag)
    if 'gen' in f:
        generated(ctx, f)
    if 'extra' in f:
        f['extra'](ctx, f)
    if 'l2gate' in f:
        l2gate(ctx, f)


def replay(ctx, path):
    f = F[ctx.pid]
    if 'custom_replay' in f:
        return f['custom_replay'](ctx, path)
    build_harness(ctx)
    ei = json.load(open(f'{path}/exec.json'))
    mode = ei.get('mode', 'c')
    if ei.get('crash'):
        # a crash is replayed by re-running the same seeded batch
        f2 = dict(f, driver=ei['driver'], profile=ei['profile'])
        return conformance(ctx, f2, mode, ei['n'], ei['seed'], 'replay')
    for leg in f.get('legs', []):
        if leg.get('driver') == ei.get('driver'):
            f = dict(f, **leg)
    out, st = run_harness(ctx, f['driver'], 'replay', mode=mode, profile='replay', replay=f'{path}/exec.json')
    rej, _ = validate(ctx, f['tv'], f'{out}/trace.ndjson', st, ei.get('prop', f['prop']), 'tv_replay', parallel=1)
    handle_rejections(ctx, f, rej, st, mode, 'replay')


# ---------------------------------------------------------------------------------------------------------------------
# C19 Callable: exhaustive case enumeration executed by the real code, each case checked by TLC against the
# TLA+ transcription of the rules (CallableTV.tla)
def run_callable(ctx):
    build_harness(ctx)
    out, st = run_harness(ctx, 'callable', 'enum', tier=ctx.tier, seed=ctx.seed)
    trace = f'{out}/trace.ndjson'
    n, bad = tv_cases(ctx, 'CallableTV', trace, 'tv_cases')
    ctx.evaluations += n
    ctx.traces_ok += n - len(bad)
    ctx.distinct_nontrivial += n
    lines = open(trace).read().splitlines()
    ctx.samples += [json.loads(lines[i]) for i in (0, len(lines) // 3, 2 * len(lines) // 3) if i < len(lines)]
    ctx.conf.append(dict(mode='enumeration', cases=n, disagreeing=len(bad), exhaustive=(ctx.tier == 'thorough')))
    classes = {}
    for b in bad:
        e = json.loads(lines[b - 1])
        kind = 'untyped-nil-argument' if 'nil' in e.get('args', []) else 'untyped-nil-target' if 'unil' in e.get('targets', []) + [e.get('starget')] else 'other'
        sig = f'case:{e["u"]}:{e["out"]}:{kind}'
        classes.setdefault(sig, []).append(e)
    for sig, es in classes.items():
        report(ctx, sig, f'{len(es)} enumerated case(s) where the real Call disagrees with the specification; first: {json.dumps(es[0])[:400]}',
               {'cases.ndjson': '\n'.join(json.dumps(e) for e in es[:200]) + '\n', 'exec.json': dict(driver='callable', spec='CallableTV')})


def replay_callable(ctx, path):
    """re-run the whole enumeration: a stored case is identified by its content, the real code is re-executed"""
    run_callable(ctx)


F['C19'] = dict(custom=run_callable, custom_replay=replay_callable)


# ---------------------------------------------------------------------------------------------------------------------
# generic enumeration check: the harness executes every scenario of a finite family with the real code and writes one
# line per scenario; TLC checks each line against the specification's Expected operator (TVBAD lines = disagreements)
def run_enum(driver, spec, classify):
    def run(ctx):
        build_harness(ctx)
        out, st = run_harness(ctx, driver, 'enum', tier=ctx.tier, seed=ctx.seed)
        trace = f'{out}/trace.ndjson'
        n, bad = tv_cases(ctx, spec, trace, 'tv_cases')
        ctx.evaluations += n
        ctx.traces_ok += n - len(bad)
        ctx.distinct_nontrivial += n
        lines = open(trace).read().splitlines()
        ctx.samples += [json.loads(lines[i]) for i in (0, len(lines) // 3, 2 * len(lines) // 3) if i < len(lines)]
        ctx.conf.append(dict(mode='enumeration', cases=n, disagreeing=len(bad), exhaustive=(ctx.tier == 'thorough')))
        classes = {}
        for b in bad:
            e = json.loads(lines[b - 1])
            classes.setdefault(classify(e), []).append(e)
        for sig, es in classes.items():
            report(ctx, sig, f'{len(es)} enumerated scenario(s) where the real code disagrees with {spec}; first: {json.dumps(es[0])[:400]}',
                   {'cases.ndjson': '\n'.join(json.dumps(e) for e in es[:200]) + '\n', 'exec.json': dict(driver=driver, spec=spec)})
    return run


F['C18'] = dict(custom=run_enum('retry', 'RetryTV', lambda e: f'{e.get("ev")}:{e.get("ckind", "")}:{"panic" if e.get("panic") else "mismatch"}'),
                custom_replay=lambda ctx, path: run_enum('retry', 'RetryTV', lambda e: 'x')(ctx))


# ---------------------------------------------------------------------------------------------------------------------
# C16 context combinators: protocol model checked (ContextMC); observations made at exactly quiescent points of real
# executions (controlled and free-running) are checked line by line against ContextTV
def run_context(ctx):
    build_harness(ctx)
    run_mc(ctx, 'ContextMC', 'ContextMC' if ctx.quick else 'ContextMC_big', workers=8, timeout=900)
    for mode, profile, n, seed in (('c', 'main', 150 if ctx.quick else 3000, ctx.seed), ('f', 'main', 300 if ctx.quick else 6000, ctx.seed + 1000),
                                   ('c', 'race', 250 if ctx.quick else 2500, ctx.seed + 2000), ('f', 'race', 4000 if ctx.quick else 60000, ctx.seed + 3000)):
        try:
            out, st = run_harness(ctx, 'context', f'mode{mode}_{profile}', mode=mode, profile=profile, seed=seed, n=n)
        except Crash as c:
            first = str(c).splitlines()[0][:300]
            report(ctx, f'crash:mode{mode.upper()}:{profile}:{first[:80]}',
                   f'the process running the real code was killed by a panic raised outside the harness, in code the library started (driver context, profile {profile}, mode {mode}, seed {seed}): {first}',
                   {'panic.txt': str(c), 'exec.json': dict(driver='context', profile=profile, mode=mode, seed=seed, n=n, crash=True)})
            ctx.evaluations += 1
            continue
        trace = f'{out}/trace.ndjson'
        nlines, bad = tv_cases(ctx, 'ContextTV', trace, f'tv_{mode}_{profile}')
        lines = open(trace).read().splitlines()
        nobs = sum(1 for ln in lines if '"ev":"obs"' in ln)
        ctx.evaluations += st['executions']
        ctx.distinct_nontrivial += st['nontrivial'] or st['distinct_schedules']
        ctx.samples += st.get('samples', [])[:1]
        ctx.conf.append(dict(mode='controlled' if mode == 'c' else 'free', executions=st['executions'], observations=nobs, disagreeing=len(bad),
                             steps=st.get('steps'), distinct=st['distinct_schedules']))
        bad_execs = set()
        for b in bad:
            s = b - 1
            while s > 0 and '"ev":"reset"' not in lines[s]:
                s -= 1
            ex = json.loads(lines[s]).get('exec')
            if ex in bad_execs:
                continue
            bad_execs.add(ex)
            e = json.loads(lines[b - 1])
            ei = next((x for x in st.get('exec_index', []) if x['exec'] == ex), {})
            if len(bad_execs) <= 20:
                report(ctx, f'mode{mode.upper()}:{profile}:obs:{e.get("kind")}:{len(bad_execs)}', f'observation at exact quiescence disagrees with ContextTV: {lines[b - 1][:300]}',
                       {'exec.json': dict(ei, mode=mode, driver='context', spec='ContextTV'), 'rejected_event.json': lines[b - 1]})
        ctx.traces_ok += st['executions'] - len(bad_execs)


def replay_context(ctx, path):
    build_harness(ctx)
    ei = json.load(open(f'{path}/exec.json'))
    out, st = run_harness(ctx, 'context', 'replay', mode=ei.get('mode', 'c'), profile='replay', replay=f'{path}/exec.json')
    n, bad = tv_cases(ctx, 'ContextTV', f'{out}/trace.ndjson', 'tv_replay')
    lines = open(f'{out}/trace.ndjson').read().splitlines()
    for b in bad[:1]:
        report(ctx, 'replay:obs', f'observation disagrees with ContextTV: {lines[b - 1][:300]}', {'exec.json': ei})


F['C16'] = dict(custom=run_context, custom_replay=replay_context)


# ---------------------------------------------------------------------------------------------------------------------
# C11 (lock-discipline projection only, level exploration): every driver is run under the controlled scheduler with a
# strategy that keeps goroutines parked inside critical sections while the others run towards the same locks; the
# controller records which goroutines are simultaneously inside critical sections; TLC checks every such record against
# the lock table of LockTV.tla
LOCK_RUNS = [('buffer', 'fifo'), ('buffer', 'close'), ('buffer', 'wake'), ('channel', 'main'), ('notifier', 'main'), ('workers', 'main'),
             ('worker', 'main'), ('exclusive', 'main'), ('pubsub', 'main'), ('caster', 'main')]


def run_locks(ctx):
    build_harness(ctx)
    known2 = 0
    for driver, profile in LOCK_RUNS:
        n = 25 if ctx.quick else 400
        out, st = run_harness(ctx, driver, f'locks_{driver}_{profile}', mode='c', profile=profile, seed=ctx.seed, n=n, locks=1)
        trace = f'{out}/trace.ndjson'
        nlines, bad = tv_cases(ctx, 'LockTV', trace, f'tv_{driver}_{profile}')
        m = re.search(r'<<"TVKNOWN2", (\d+)>>', open(f'{ctx.work}/tv_{driver}_{profile}/tlc.out').read())
        k2 = int(m.group(1)) if m else 0
        known2 += k2
        lines = open(trace).read().splitlines()
        nrec = sum(1 for ln in lines if '"ev":"locks"' in ln)
        ctx.evaluations += st['executions']
        ctx.distinct_nontrivial += k2
        ctx.conf.append(dict(driver=driver, profile=profile, executions=st['executions'], records=nrec, records_with_two_known_holders=k2, conflicting=len(bad)))
        if len(ctx.samples) < 3:
            ctx.samples += [json.loads(ln) for ln in lines if '"ev":"locks"' in ln][:1]
        bad_execs = set()
        for b in bad:
            s_ = b - 1
            while s_ > 0 and '"ev":"reset"' not in lines[s_]:
                s_ -= 1
            ex = json.loads(lines[s_]).get('exec')
            if ex in bad_execs or len(bad_execs) >= 10:
                continue
            bad_execs.add(ex)
            ei = next((x for x in st.get('exec_index', []) if x['exec'] == ex), {})
            report(ctx, f'locks:{driver}:{len(bad_execs)}', f'two goroutines were inside critical sections of the same mutex at the same time: {lines[b - 1][:400]}',
                   {'exec.json': dict(ei, mode='c', driver=driver, profile=profile, locks=1, spec='LockTV'), 'rejected_event.json': lines[b - 1]})
        ctx.traces_ok += st['executions'] - len(bad_execs)
    if known2 == 0:
        raise Infra('no record with two goroutines inside known critical sections: the lock table or the hooks are out of date')


F['C11'] = dict(custom=run_locks, custom_replay=lambda ctx, path: run_locks(ctx))
