"""Shared machinery for /verif/bin/check: build the harness from /repo's working tree, run TLC model checking jobs,
run harness drivers against the real code, validate the recorded traces with TLC, classify rejections, write evidence."""
import json, os, re, shutil, subprocess, sys, time, hashlib, glob
from concurrent.futures import ThreadPoolExecutor

VERIF = '/verif'
REPO = os.environ.get('VERIF_REPO', '/repo')   # registered checks always use /repo; VERIF_REPO is for experiments only
SPEC = f'{VERIF}/spec'
GOENV = dict(os.environ, GOFLAGS='-mod=mod', GOPROXY='off', GOSUMDB='off', GOTOOLCHAIN='local')


class Infra(Exception):
    """infrastructure failure: exit 2, claims nothing"""


class Crash(Exception):
    """the harness process was killed by a panic raised inside a goroutine of the library under test"""


def log(*a):
    print(*a, flush=True)


def sh(cmd, **kw):
    return subprocess.run(cmd, shell=isinstance(cmd, str), stdout=subprocess.PIPE, stderr=subprocess.STDOUT, text=True, **kw)


class Ctx:
    """state of one check run"""

    def __init__(self, pid, tier, seed):
        self.pid, self.tier, self.seed = pid, tier, seed
        self.t0 = time.time()
        self.work = f'{VERIF}/.work/{pid}' + os.environ.get('VERIF_WORK_SUFFIX', '')
        self.states = 0
        self.transitions = 0
        self.mc_jobs = []
        self.traces_ok = 0
        self.evaluations = 0
        self.distinct_nontrivial = 0
        self.samples = []
        self.violations = []  # dicts: {sig, text, replay}
        self.known = []
        self.notes = []
        self.conf = []
        self.action_cover = {}
        self.assumptions = []

    def fresh_work(self):
        shutil.rmtree(self.work, ignore_errors=True)
        os.makedirs(self.work, exist_ok=True)

    @property
    def quick(self):
        return self.tier == 'quick'


# ---------------------------------------------------------------------------------------------------------------------
def build_harness(ctx):
    """always rebuilds from /repo's current working tree with -tags verif"""
    h = f'{VERIF}/harness'
    if REPO != '/repo':
        # experiment against another tree: build from a private copy of the harness whose replace directive points there
        h2 = f'{ctx.work}/harness_src'
        shutil.rmtree(h2, ignore_errors=True)
        shutil.copytree(h, h2)
        gm = open(f'{h2}/go.mod').read().replace('=> /repo', f'=> {REPO}')
        open(f'{h2}/go.mod', 'w').write(gm)
        h = h2
    try:
        shutil.copy(f'{REPO}/go.sum', f'{h}/go.sum')
    except OSError:
        pass
    out = f'{ctx.work}/bin/harness'
    os.makedirs(os.path.dirname(out), exist_ok=True)
    r = sh(['go', 'build', '-tags', 'verif', '-o', out, '.'], cwd=h, env=GOENV)
    if r.returncode != 0:
        raise Infra('harness build failed (does /repo compile with -tags verif?):\n' + r.stdout[-3000:])
    ctx.harness = out
    return out


# ---------------------------------------------------------------------------------------------------------------------
def tlc_dir(ctx, name):
    d = f'{ctx.work}/{name}'
    shutil.rmtree(d, ignore_errors=True)
    os.makedirs(d)
    for f in glob.glob(f'{SPEC}/*.tla') + glob.glob(f'{SPEC}/*.cfg'):
        shutil.copy(f, d)
    return d


def run_mc(ctx, spec, cfg, workers=8, timeout=900, name=None, expect_ok=True, extra=None, coverage=False):
    """exhaustive TLC run of spec.tla with cfg; accumulates states/transitions; a model-level error is an
    infrastructure failure of the check (the verdict on the code only ever comes from the real code)"""
    name = name or f'mc_{cfg}'
    d = tlc_dir(ctx, name)
    cmd = ['timeout', str(timeout), 'tlc', '-workers', str(workers), '-metadir', f'{d}/md', '-config', f'{cfg}.cfg']
    if coverage:
        cmd += ['-coverage', '1']
    if extra:
        cmd += extra
    cmd += [f'{spec}.tla']
    t = time.time()
    env = dict(os.environ)
    env.pop('JAVA_TOOL_OPTIONS', None)
    r = sh(cmd, cwd=d, env=env)
    open(f'{d}/tlc.out', 'w').write(r.stdout)
    m = re.search(r'(\d+) states generated, (\d+) distinct states found', r.stdout)
    gen, dist = (int(m.group(1)), int(m.group(2))) if m else (0, 0)
    ok = 'Model checking completed. No error has been found.' in r.stdout
    job = dict(spec=spec, cfg=cfg, generated=gen, distinct=dist, ok=ok, wall_s=round(time.time() - t, 1))
    ctx.mc_jobs.append(job)
    ctx.states += dist
    ctx.transitions += gen
    log(f'  MC {spec}/{cfg}: {dist} distinct states, {gen} generated, ok={ok}, {job["wall_s"]}s')
    if expect_ok and not ok:
        tail = '\n'.join(r.stdout.splitlines()[-40:])
        raise Infra(f'model checking of {spec}/{cfg} did not complete cleanly (rc={r.returncode}):\n{tail}')
    shutil.rmtree(f'{d}/md', ignore_errors=True)
    return job, r.stdout


# ---------------------------------------------------------------------------------------------------------------------
def run_harness(ctx, driver, name, timeout=1200, **args):
    out = f'{ctx.work}/{name}'
    shutil.rmtree(out, ignore_errors=True)
    cmd = [ctx.harness, driver, '-out', out]
    for k, v in args.items():
        cmd += [f'-{k}', str(v)]
    r = sh(cmd, timeout=timeout)
    stats = {}
    try:
        stats = json.load(open(f'{out}/stats.json'))
    except Exception:
        pass
    if r.returncode != 0:
        m = re.search(r'^panic: .*$', r.stdout, re.M)
        if m and 'harness: ' not in r.stdout[:m.start()]:
            # an unrecovered panic (the harness recovers panics of the calls it makes itself): it is the library's when the
            # panicking goroutine (first block of the dump) runs no harness code at all: a goroutine the library started, or
            # a function value the library handed to the runtime, e.g. context.AfterFunc(ctx, wg.Done); a panicking goroutine
            # with harness frames is a harness bug (exit 2)
            tail = r.stdout[m.start():]
            first = tail.split('\n\n', 2)[1] if tail.count('\n\n') >= 1 else tail
            if 'main.' not in first and 'verifharness/' not in first:
                raise Crash(tail[:6000])
        raise Infra(f'harness {driver} {args} failed rc={r.returncode}: {r.stdout[-2000:]} {stats.get("infra")}')
    if stats.get('infra'):
        raise Infra(f'harness {driver} reported infrastructure problems: {stats["infra"]}')
    return out, stats


# ---------------------------------------------------------------------------------------------------------------------
def split_trace(path, parts):
    """split a concatenated trace into up to `parts` files at reset lines, fixing up 'ret' line references;
    returns [(file, first_line_in_original)]"""
    lines = open(path).read().splitlines()
    starts = [i for i, ln in enumerate(lines) if '"ev":"reset"' in ln]
    if not starts:
        return [(path, 1)]
    parts = max(1, min(parts, len(starts)))
    per = (len(starts) + parts - 1) // parts
    out = []
    for p in range(parts):
        seg = starts[p * per:(p + 1) * per]
        if not seg:
            break
        a = seg[0]
        b = starts[(p + 1) * per] if (p + 1) * per < len(starts) else len(lines)
        fn = f'{path}.part{p}'
        with open(fn, 'w') as f:
            for ln in lines[a:b]:
                if a and '"ev":"call"' in ln:
                    ln = re.sub(r'"ret":(\d+)', lambda m: '"ret":%d' % (int(m.group(1)) - a if int(m.group(1)) else 0), ln)
                f.write(ln + '\n')
        out.append((fn, a + 1))
    return out


def tv_once(ctx, spec, cfg, trace, prop, name, timeout=1800, extra_env=None, coverage=False):
    d = tlc_dir(ctx, name)
    env = dict(os.environ, TRACE=trace, PROP=prop, JAVA_TOOL_OPTIONS='-Xss256m -Dtlc2.tool.queue.IStateQueue=StateDeque')
    if extra_env:
        env.update(extra_env)
    cmd = ['timeout', str(timeout), 'tlc', '-workers', '1', '-metadir', f'{d}/md', '-config', f'{cfg}.cfg']
    if coverage:
        cmd += ['-coverage', '1']
    r = sh(cmd + [f'{spec}.tla'], cwd=d, env=env)
    open(f'{d}/tlc.out', 'w').write(r.stdout)
    shutil.rmtree(f'{d}/md', ignore_errors=True)
    if coverage:
        # which actions of the trace specification the real executions exercised (vacuity guard, goes into the evidence)
        acts = {}
        for mm in re.finditer(r'^<(T[A-Za-z]+) line \d+, col \d+ to line \d+, col \d+ of module \w+>: (\d+):(\d+)', r.stdout, re.M):
            acts[mm.group(1)] = int(mm.group(3))
        cov = getattr(ctx, 'tv_action_counts', {})
        for k, v in acts.items():
            cov[k] = cov.get(k, 0) + v
        ctx.tv_action_counts = cov
    # situations a trace specification accepts only because they are listed as known findings (it names them)
    for mm in re.finditer(r'<<"TVKNOWN", "([^"]+)", (\d+)>>', r.stdout):
        kn = ctx.__dict__.setdefault('tv_known', {})
        kn[mm.group(1)] = kn.get(mm.group(1), 0) + 1
    m = re.search(r'<<"TVMARK", (\d+), (\d+)>>', r.stdout)
    if not m and r.returncode == 124:
        return dict(timeout=True, accepted=False, mark=0, total=0, generated=0, distinct=0)
    if not m:
        raise Infra(f'trace validation {spec} on {trace} produced no verdict (rc={r.returncode}):\n' + '\n'.join(r.stdout.splitlines()[-30:]))
    mark, total = int(m.group(1)), int(m.group(2))
    ms = re.search(r'(\d+) states generated, (\d+) distinct states found', r.stdout)
    gen, dist = (int(ms.group(1)), int(ms.group(2))) if ms else (0, 0)
    return dict(accepted=(mark == total), mark=mark, total=total, generated=gen, distinct=dist)


def tv_cases(ctx, spec, trace, name, timeout=1800):
    """validate a file of independent cases (one per line); returns (number of lines, [bad 1-based line numbers])"""
    d = tlc_dir(ctx, name)
    env = dict(os.environ, TRACE=trace, JAVA_TOOL_OPTIONS='-Xss256m -Dtlc2.tool.queue.IStateQueue=StateDeque')
    r = sh(['timeout', str(timeout), 'tlc', '-workers', '1', '-metadir', f'{d}/md', '-config', f'{spec}.cfg', f'{spec}.tla'], cwd=d, env=env)
    open(f'{d}/tlc.out', 'w').write(r.stdout)
    shutil.rmtree(f'{d}/md', ignore_errors=True)
    m = re.search(r'<<"TVMARK", (\d+), (\d+)>>', r.stdout)
    if not m or int(m.group(1)) != int(m.group(2)):
        raise Infra(f'case validation {spec} on {trace} did not run to the end (rc={r.returncode}):\n' + '\n'.join(r.stdout.splitlines()[-30:]))
    bad = [int(x) for x in re.findall(r'<<"TVBAD", (\d+)>>', r.stdout)]
    ms = re.search(r'(\d+) states generated, (\d+) distinct states found', r.stdout)
    if ms:
        ctx.states += int(ms.group(2))
        ctx.transitions += int(ms.group(1))
    return int(m.group(2)), bad


def exec_of_line(stats, line):
    """ExecInfo (from stats.exec_index) of the execution containing the 1-based trace line"""
    best = None
    for e in stats.get('exec_index', []):
        if e['line'] <= line and (best is None or e['line'] > best['line']):
            best = e
    return best


def validate(ctx, spec, trace, stats, prop, name, parallel=8, cfg=None, max_viol=3, extra_env=None):
    """validate every execution of a trace file; returns list of rejections [{line, exec, event, context}]"""
    cfg = cfg or spec
    lines = open(trace).read().splitlines()
    nexec = sum(1 for ln in lines if '"ev":"reset"' in ln)
    parts = split_trace(trace, parallel if nexec >= 4 * parallel else 1)
    rejections = []

    t1 = 240 if ctx.quick else 900      # per chunk
    t2 = 45 if ctx.quick else 100       # per single execution (fallback)

    def one_file(fn, tag, timeout):
        """validate one file (possibly several executions); returns (rejections, timed_out)"""
        rej = []
        cur = fn
        for attempt in range(max_viol + 1):
            res = tv_once(ctx, spec, cfg, cur, prop, f'{name}_{tag}_{attempt}', timeout=timeout, extra_env=extra_env,
                          coverage=(tag == 'p0' and attempt == 0))
            if res.get('timeout'):
                return rej, True
            ctx.tv_states += res['distinct']
            if res['accepted']:
                break
            cl = open(cur).read().splitlines()
            bad = res['mark'] + 1
            s = min(bad, len(cl)) - 1
            while s > 0 and '"ev":"reset"' not in cl[s]:
                s -= 1
            e = min(bad, len(cl))
            while e < len(cl) and '"ev":"reset"' not in cl[e]:
                e += 1
            try:
                exec_id = json.loads(cl[s]).get('exec')
            except Exception:
                exec_id = None
            rej.append(dict(exec=exec_id, text=cl[bad - 1] if bad <= len(cl) else '<end of trace>',
                            offset=bad - s, exec_lines=cl[s:e]))
            rest = cl[:s] + cl[e:]
            if not rest:
                break
            nf = f'{fn}.r{attempt}'
            removed = e - s
            with open(nf, 'w') as f:
                for k, ln in enumerate(rest):
                    if k >= s and '"ev":"call"' in ln:
                        ln = re.sub(r'"ret":(\d+)', lambda m: '"ret":%d' % (int(m.group(1)) - removed if int(m.group(1)) else 0), ln)
                    f.write(ln + '\n')
            cur = nf
        return rej, False

    def budget(fn):
        """time allowed for one validation run: generous for a linear search (a few thousand lines per second), so that a
        search that blows up is cut short early instead of eating the whole per-chunk allowance"""
        nl = sum(1 for _ in open(fn))
        return max(45, min(t1, nl // 75))

    def rec_file(fn, tag):
        """validate a file; when the search is too expensive bisect it (down to single executions, which are skipped)"""
        n = sum(1 for ln in open(fn) if '"ev":"reset"' in ln)
        rej, to = one_file(fn, tag, t2 if n <= 1 else budget(fn))
        if not to:
            return rej, 0
        if n <= 1:
            return [], 1
        rej, skipped = [], 0
        for j, (sf, _) in enumerate(split_trace(fn, 2)):
            r, sk = rec_file(sf, f'{tag}x{j}')
            rej += r
            skipped += sk
        return rej, skipped

    def job(i_part):
        i, (fn, first) = i_part
        return rec_file(fn, f'p{i}')

    ctx.tv_states = getattr(ctx, 'tv_states', 0)
    with ThreadPoolExecutor(max_workers=max(1, min(parallel, len(parts)))) as ex:
        for rej, skipped in ex.map(job, list(enumerate(parts))):
            rejections += rej
            ctx.tv_skipped = getattr(ctx, 'tv_skipped', 0) + skipped
            nexec -= skipped
    ctx.traces_ok += nexec - len(rejections)
    ctx.evaluations += nexec
    return rejections, nexec


# ---------------------------------------------------------------------------------------------------------------------
def load_known():
    try:
        return json.load(open(f'{VERIF}/known_findings.json')).get('findings', [])
    except Exception:
        return []


def report(ctx, sig, text, replay_files):
    """register a violation (or a known finding) with a replay directory"""
    for k in load_known():
        if k.get('property') == ctx.pid and k.get('kind') == 'known' and k.get('signature') == sig:
            if sig not in [x['sig'] for x in ctx.known]:
                ctx.known.append(dict(sig=sig, text=k.get('text', text)))
            return
    n = len(ctx.violations)
    d = f'{ctx.work}/viol-{n}'
    os.makedirs(d, exist_ok=True)
    for fn, content in replay_files.items():
        with open(f'{d}/{fn}', 'w') as f:
            f.write(content if isinstance(content, str) else json.dumps(content, indent=1))
    with open(f'{d}/README.txt', 'w') as f:
        f.write(f'property {ctx.pid}\nsignature {sig}\n{text}\nreplay: {VERIF}/bin/check {ctx.pid} --replay {d}\n')
    ctx.violations.append(dict(sig=sig, text=text, replay=d))


def finish(ctx, level, rule, assumptions, extra=None):
    """write evidence, print verdict lines, return exit code"""
    cov = dict(
        states=max(ctx.states, 0), transitions=max(ctx.transitions, 0),
        traces_validated_against_impl=ctx.traces_ok,
        evaluations=ctx.evaluations, distinct_nontrivial=ctx.distinct_nontrivial, rule=rule,
        samples=ctx.samples[:4] or [{'note': 'no sample recorded'}],
        mc_jobs=ctx.mc_jobs, conformance=ctx.conf, tv_states=getattr(ctx, 'tv_states', 0),
        tv_skipped_too_expensive=getattr(ctx, 'tv_skipped', 0),
        tv_action_counts_first_chunk=getattr(ctx, 'tv_action_counts', {}),
        known_findings_reported=[k['sig'] for k in ctx.known],
        notes=ctx.notes,
    )
    if extra:
        cov.update(extra)
    ev = dict(property_id=ctx.pid, tier=ctx.tier, seed=ctx.seed, level=level, coverage=cov,
              assumptions=assumptions, wall_s=round(time.time() - ctx.t0, 1), violations=len(ctx.violations))
    # (experiments against a scratch tree - VERIF_REPO set - must not overwrite the evidence of the real tree)
    evdir = f'{VERIF}/evidence' if 'VERIF_REPO' not in os.environ else f'{ctx.work}/evidence'
    os.makedirs(evdir, exist_ok=True)
    with open(f'{evdir}/{ctx.pid}.json', 'w') as f:
        json.dump(ev, f, indent=1, default=str)
    for k in ctx.known:
        log(f'KNOWN-FINDING: property={ctx.pid} {k["text"]}')
    for v in ctx.violations:
        log(f'VIOLATION property={ctx.pid} replay={v["replay"]}')
        log(f'  {v["sig"]}: {v["text"]}')
    if getattr(ctx, 'tv_skipped', 0):
        log(f'NOTE {ctx.pid}: {ctx.tv_skipped} recorded execution(s) were not validated (validation timed out - machine overloaded or '
            f'search too expensive); they count neither as passed nor as failed')
    log(f'{ctx.pid} {ctx.tier}: states={ctx.states} traces_ok={ctx.traces_ok}/{ctx.evaluations} '
        f'violations={len(ctx.violations)} known={len(ctx.known)} wall={ev["wall_s"]}s')
    return 1 if ctx.violations else 0
