------------------------------ MODULE AttemptTV ------------------------------
(***************************************************************************)
(* Trace validation of recorded bigbuff.LinearAttempt histories (C20).     *)
(* One execution = one LinearAttempt(ctx, rate, count) channel, one        *)
(* receiver (prompt, slow or absent, as scheduled), one canceller.         *)
(*   ret     : LinearAttempt returned; buffered = len(channel) at return   *)
(*   got     : the receiver obtained a value (tsok: not older than the     *)
(*             previous one)                                               *)
(*   closed  : the receiver saw the channel closed                         *)
(*   cancel  : the context is about to be cancelled                        *)
(***************************************************************************)
EXTENDS Integers, Sequences, FiniteSets, TLC, Json, IOUtils, TLCExt

TLog == ndJsonDeserialize(IOEnv.TRACE)
NL   == Len(TLog)

VARIABLES l, count, pre, n, cancelledAt, closed, returned,
  dl          \* the context of this execution ends by a deadline (no cancel line announces that)
vars == <<count, pre, n, cancelledAt, closed, returned, dl>>
tvars == <<vars, l>>

TVInit == l = 1 /\ count = 0 /\ pre = FALSE /\ n = 0 /\ cancelledAt = -1 /\ closed = FALSE /\ returned = FALSE /\ dl = FALSE /\ TLCSet(1, 0)
Cur == TLog[l]
IsEv(e) == l <= NL /\ Cur.ev = e
Consume == l' = l + 1

TReset ==
  /\ IsEv("reset") /\ Consume
  /\ count' = Cur.count /\ pre' = Cur.pre /\ n' = 0 /\ cancelledAt' = (IF Cur.pre THEN 0 ELSE -1) /\ closed' = FALSE /\ returned' = FALSE
  /\ dl' = Cur.dl

\* the first value is there when LinearAttempt returns (nothing at all if the context was cancelled beforehand)
TRet ==
  /\ IsEv("ret") /\ Consume
  /\ ~Cur.panic
  /\ Cur.buffered = (IF pre THEN 0 ELSE 1)
  /\ returned' = TRUE
  /\ UNCHANGED <<count, pre, n, cancelledAt, closed, dl>>

TCancel ==
  /\ IsEv("cancel") /\ Consume
  /\ cancelledAt' = IF cancelledAt = -1 THEN n ELSE cancelledAt
  /\ UNCHANGED <<count, pre, n, closed, returned, dl>>

TGot ==
  /\ IsEv("got") /\ Consume
  /\ returned /\ ~closed /\ ~pre
  /\ n + 1 <= count                                     \* never more than count values
  /\ Cur.tsok                                            \* non-decreasing timestamps
  \* after cancellation at most one further tick is forwarded: one buffered + one in flight
  /\ cancelledAt # -1 => n + 1 <= cancelledAt + 2
  /\ n' = n + 1
  /\ UNCHANGED <<count, pre, cancelledAt, closed, returned, dl>>

TClosed ==
  /\ IsEv("closed") /\ Consume
  /\ returned
  /\ (cancelledAt = -1 /\ ~dl) => n = count              \* without cancellation it closes after the count-th value
  \* closed before the count-th value: only because the context is done (cancelled, or past its deadline) - the
  \* receiver looked at the context after it had seen the close
  /\ n < count => Cur.done
  /\ closed' = TRUE
  /\ UNCHANGED <<count, pre, n, cancelledAt, returned, dl>>

\* the producer is only still ticking when it is allowed to be: not cancelled, not finished
TQuiescent ==
  /\ IsEv("quiescent") /\ Consume
  /\ Cur.producer => (cancelledAt = -1 /\ n < count /\ ~closed)
  /\ UNCHANGED vars

\* always closed in the end (the harness drains the channel after cancelling), the goroutine is gone
TFinal ==
  /\ IsEv("final") /\ Consume
  /\ closed /\ Cur.leaked = 0 /\ ~Cur.producer
  /\ UNCHANGED vars

TVNext == TReset \/ TRet \/ TCancel \/ TGot \/ TClosed \/ TQuiescent \/ TFinal
TVSpec == TVInit /\ [][TVNext]_tvars
Mark ==
  /\ IF l - 1 > TLCGet(1) THEN TLCSet(1, l - 1) ELSE TRUE
  /\ IF l - 1 = NL THEN PrintT(<<"TVDONE", NL>>) /\ TLCSet("exit", TRUE) ELSE TRUE
Accepted == PrintT(<<"TVMARK", TLCGet(1), NL>>) /\ TLCGet(1) = NL
=============================================================================
