SPECIFICATION MCSpec
CONSTANTS
  MaxSrc = 7
  Callers = {"a", "b"}
INVARIANTS TypeOK Lossless StreamIntact
PROPERTIES NothingTakenAfterCancel TakenInOrder OnlyCommitDrops
CHECK_DEADLOCK FALSE
