SPECIFICATION Spec
CONSTANTS N = 3
INVARIANTS ChainAtMostOnce ChainNeverSpontaneous ConflatedLiveWhileAnyLive WgNonNegative CombineCancelledOnlyIfOther
PROPERTIES ChainExactlyOnce ConflatedEventuallyCancelled CombineEventually CombineCleansUp
CHECK_DEADLOCK FALSE
