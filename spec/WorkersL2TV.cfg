SPECIFICATION TVSpec
CONSTANTS
  Calls = {1, 2, 3, 4, 5, 6, 7, 8, 9, 10, 11, 12, 13, 14, 15, 16, 17, 18, 19, 20, 21, 22, 23, 24, 25, 26, 27, 28, 29, 30, 31, 32, 33, 34, 35, 36, 37, 38, 39, 40}
  CountOf <- TVCountOf
  MaxWorkers = 8
  ExitCmp = ">"
CONSTRAINT Mark
INVARIANTS TypeOK Bound ExactlyOnce QueueServed
POSTCONDITION Accepted
CHECK_DEADLOCK FALSE
