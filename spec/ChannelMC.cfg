SPECIFICATION MCSpec
CONSTANTS
  MaxSrc = 4
  Callers = {"a", "b"}
INVARIANTS TypeOK Lossless StreamIntact
PROPERTIES NothingTakenAfterCancel TakenInOrder OnlyCommitDrops
CHECK_DEADLOCK FALSE
