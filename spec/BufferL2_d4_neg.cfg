SPECIFICATION Spec
CONSTANTS
  MaxPut = 3
  MaxGet = 3
  Cooldown = TRUE
  Fixed = TRUE
  Max = 1
  Target = 1
  TimerLocked = TRUE
  Recheck = FALSE
  WatcherLocked = TRUE
INVARIANTS TypeOK
PROPERTIES Reclaim
CHECK_DEADLOCK FALSE
