SPECIFICATION GSpec
CONSTANTS
  Cons = {1, 2}
  NoG = 0
  Depth = 4
  MaxLog = 4
  GFixed = FALSE
  GMax = 0
  GTarget = 0
INVARIANTS GenOut FIFO TypeOK
CHECK_DEADLOCK FALSE
