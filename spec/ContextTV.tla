------------------------------ MODULE ContextTV ------------------------------
(***************************************************************************)
(* C16 (and the registration clean-up of C12).  Every "obs" line is an     *)
(* observation of a combinator's result made at an exactly quiescent point *)
(* after a cancellation step; TLC checks it against what the property says *)
(* the result must be, as a function of which inputs have been cancelled.  *)
(*   kind "combine":   input 0 is the primary, 1..n the others (nil ones   *)
(*                     listed in nils)                                     *)
(*   kind "conflated": inputs 1..n                                         *)
(*   kind "chain":     input 0 is ctx, input 1 is other                    *)
(***************************************************************************)
EXTENDS Integers, Sequences, FiniteSets, TLC, Json, IOUtils, TLCExt

TLog == ndJsonDeserialize(IOEnv.TRACE)
NL   == Len(TLog)
SetOf(sq) == {sq[i] : i \in 1..Len(sq)}

Check(c) ==
  LET C == SetOf(c.cancelled) IN
  CASE c.kind = "combine" ->
         LET others == {i \in 1..c.n : i \notin SetOf(c.nils)} IN
         /\ c.res = (0 \in C \/ (C \cap others) # {})          \* cancelled exactly when the primary or any other is
         /\ c.v1ok                                              \* carries the primary's values
         /\ c.res => c.livereg = 0                              \* its hooks on the others are removed once it is cancelled
    [] c.kind = "conflated" ->
         /\ c.res = (((1..c.n) \subseteq C) \/ c.explicit)      \* live while any input is live, unless cancel was called
         /\ c.v1ok /\ c.v2absent                                \* only the first input's values
    [] c.kind = "chain" ->
         c.calls = (IF C # {} THEN 1 ELSE 0)                    \* exactly once if either is cancelled, never otherwise
    [] OTHER -> FALSE

\* "built": the result at the very moment the constructor returns: already cancelled if an input already is (for the
\* conflated context: if all are); not cancelled if none was (constructions that race a cancellation are exempt)
Built(c) ==
  LET P == SetOf(c.pre) IN
  CASE c.kind = "combine" ->
         LET others == {i \in 1..c.n : i \notin SetOf(c.nils)} IN
         (0 \in P \/ (P \cap others) # {}) => c.res0
    [] c.kind = "conflated" -> ((1..c.n) \subseteq P) => c.res0
    [] OTHER -> TRUE
BuiltLive(c) == (~c.race /\ SetOf(c.pre) = {}) => ~c.res0

VARIABLE l
TVInit == l = 1 /\ TLCSet(1, 0) /\ TLCSet(2, 0)
Cur == TLog[l]
CaseOK == IF Cur.ev = "obs" THEN Check(Cur)
          ELSE IF Cur.ev = "built" THEN Built(Cur) /\ BuiltLive(Cur)
          ELSE IF Cur.ev = "final" THEN Cur.leaked = 0 ELSE TRUE
TCase ==
  /\ l <= NL
  /\ IF CaseOK THEN TRUE ELSE PrintT(<<"TVBAD", l>>) /\ TLCSet(2, TLCGet(2) + 1)
  /\ l' = l + 1
TVSpec == TVInit /\ [][TCase]_l
Mark ==
  /\ IF l - 1 > TLCGet(1) THEN TLCSet(1, l - 1) ELSE TRUE
  /\ IF l - 1 = NL THEN PrintT(<<"TVDONE", NL>>) /\ TLCSet("exit", TRUE) ELSE TRUE
Accepted == PrintT(<<"TVMARK", TLCGet(1), NL>>) /\ PrintT(<<"TVBADCOUNT", TLCGet(2)>>) /\ TLCGet(1) = NL /\ TLCGet(2) = 0
=============================================================================
