SPECIFICATION Spec
CONSTANTS
  Holders = {"a", "b", "c"}
  MaxDo = 3
INVARIANTS HeldMeansRunning StopOnlyWhenUnheld
PROPERTIES OneInstance EventuallyStopped
CHECK_DEADLOCK FALSE
