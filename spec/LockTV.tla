------------------------------ MODULE LockTV ------------------------------
(***************************************************************************)
(* C11, lock-discipline projection only.  Under the controlled scheduler a *)
(* goroutine parked at a ".locked" / ".rlocked" gate (immediately after a  *)
(* lock acquisition), or at a ".bcast" / ".wait" gate (inside the critical *)
(* section of a condition variable's mutex) is INSIDE a critical section.  *)
(* Each "locks" line lists the goroutines that were simultaneously parked  *)
(* at such gates at one exactly quiescent point.  The table below says     *)
(* which mutex (class, per object) each gate lies under and in which mode; *)
(* two goroutines inside sections of the same mutex of the same object, at *)
(* least one of them exclusively, contradict mutual exclusion: a lock      *)
(* acquisition is missing or wrong.                                        *)
(* Item mutexes of Exclusive (per key, but the hooks only carry the        *)
(* Exclusive) and sync.WaitCond's own gates (they carry the cond, not its  *)
(* owner) are not in the table.                                            *)
(***************************************************************************)
EXTENDS Integers, Sequences, FiniteSets, TLC, Json, IOUtils, TLCExt

TLog == ndJsonDeserialize(IOEnv.TRACE)
NL   == Len(TLog)

BMutexW == {"buffer.close.locked", "buffer.put.locked", "buffer.newconsumer.locked", "buffer.setcleaner.locked",
            "buffer.delete.locked", "buffer.commit.locked", "buffer.getasync.waiter.locked", "buffer.cleanup.locked",
            "buffer.put.bcast", "buffer.newconsumer.bcast", "buffer.delete.bcast", "buffer.commit.bcast",
            "buffer.cleanuplogic.bcast", "buffer.timer.bcast", "buffer.close.wait"}
BMutexR == {"buffer.slice.rlocked", "buffer.size.rlocked", "buffer.diff.rlocked", "buffer.getasync.rlocked"}
CMutexW == {"buffer.diff.locked", "consumer.close.locked", "consumer.get.locked", "consumer.commit.locked",
            "consumer.rollback.locked", "consumer.get.bcast", "consumer.commit.bcast", "consumer.rollback.bcast",
            "consumer.close.wait"}
ChanW   == {"channel.buffer.locked", "channel.close.locked", "channel.get.locked", "channel.commit.locked", "channel.rollback.locked"}
NotW    == {"notifier.sub.locked", "notifier.unsub.locked"}
NotR    == {"notifier.pub.rlocked"}
CastW   == {"caster.send.locked"}
CastR   == {"caster.add.rlocked"}
SendMuW == {"cps.send.sendmu.locked"}
SendingW == {"cps.send.sendingmu.locked"}
SendingR == {"cps.add.rlocked"}
PongW   == {"cps.send.pong.locked", "cps.wait.locked", "cps.send.pong.bcast", "cps.wait.bcast", "cps.send.pong.wait", "cps.wait.wait"}
EMutexW == {"excl.call.emu1.locked", "excl.call.emu2.locked", "excl.run.emu.locked", "excl.run.del.locked"}
WorkersW == {"workers.call.locked", "workers.wait.locked", "workers.count.locked", "workers.worker.locked",
             "workers.worker.bcast", "workers.wait.wait"}
WorkerW == {"worker.do.locked", "worker.wait.locked"}
LocalW  == {"buffer.cleanup.fn.locked"}

Class(pt) ==
  CASE pt \in BMutexW \cup BMutexR -> "buffer.mutex"
    [] pt \in CMutexW -> "consumer.mutex"
    [] pt \in ChanW -> "channel.mutex"
    [] pt \in NotW \cup NotR -> "notifier.mutex"
    [] pt \in CastW \cup CastR -> "caster.mutex"
    [] pt \in SendMuW -> "pubsub.sendMu"
    [] pt \in SendingW \cup SendingR -> "pubsub.sendingMu"
    [] pt \in PongW -> "pubsub.pong"
    [] pt \in EMutexW -> "exclusive.mutex"
    [] pt \in WorkersW -> "workers.mutex"
    [] pt \in WorkerW -> "worker.mu"
    [] pt \in LocalW -> "buffer.cleanup.local"
    [] OTHER -> "none"
Shared(pt) == pt \in BMutexR \cup NotR \cup CastR \cup SendingR

Conflict(a, b) ==
  /\ Class(a.pt) # "none" /\ Class(a.pt) = Class(b.pt) /\ a.obj = b.obj
  /\ ~(Shared(a.pt) /\ Shared(b.pt))

NoConflict(c) == \A i, j \in 1..Len(c.held) : i < j => ~Conflict(c.held[i], c.held[j])
\* how many of the listed holders the table knows about (vacuity guard for the evidence)
Known(c) == Cardinality({i \in 1..Len(c.held) : Class(c.held[i].pt) # "none"})

VARIABLE l
TVInit == l = 1 /\ TLCSet(1, 0) /\ TLCSet(2, 0) /\ TLCSet(3, 0)
Cur == TLog[l]
TCase ==
  /\ l <= NL
  /\ IF Cur.ev = "locks"
       THEN /\ (IF NoConflict(Cur) THEN TRUE ELSE PrintT(<<"TVBAD", l>>) /\ TLCSet(2, TLCGet(2) + 1))
            /\ (IF Known(Cur) >= 2 THEN TLCSet(3, TLCGet(3) + 1) ELSE TRUE)
       ELSE TRUE
  /\ l' = l + 1
TVSpec == TVInit /\ [][TCase]_l
Mark ==
  /\ IF l - 1 > TLCGet(1) THEN TLCSet(1, l - 1) ELSE TRUE
  /\ IF l - 1 = NL THEN PrintT(<<"TVDONE", NL>>) /\ TLCSet("exit", TRUE) ELSE TRUE
Accepted == PrintT(<<"TVMARK", TLCGet(1), NL>>) /\ PrintT(<<"TVBADCOUNT", TLCGet(2)>>) /\ PrintT(<<"TVKNOWN2", TLCGet(3)>>)
            /\ TLCGet(1) = NL /\ TLCGet(2) = 0
=============================================================================
