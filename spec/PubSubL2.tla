------------------------------ MODULE PubSubL2 ------------------------------
(***************************************************************************)
(* bigbuff.ChanPubSub with its embedded ChanCaster at the granularity of   *)
(* the individual lock, atomic and channel operations (C06, C07, C08).     *)
(*                                                                         *)
(* Senders:  fast path load; sendMu; sendingMu (write); load subscribers;  *)
(*   caster Add(+n); caster Send = load, CAS-arm, n rendez-vous sends,     *)
(*   load, CAS-reset; unlock sendingMu; publish pongN and wait until it is *)
(*   consumed; unlock sendMu.                                              *)
(* Subscribers (contract obeying): Add(+1) under the read side of          *)
(*   sendingMu; then repeatedly either receive a value and Wait (consume a *)
(*   pong), or unsubscribe: TryRLock, spinning while it fails and the      *)
(*   caster is empty; decrement subscribers; if the read lock was not      *)
(*   obtained, caster Add(-1), which receives one value itself when the    *)
(*   caster is armed.                                                      *)
(* sendingMu is a Go RWMutex: a pending writer blocks new readers and      *)
(* makes TryRLock fail.                                                    *)
(***************************************************************************)
EXTENDS Integers, Sequences, FiniteSets, TLC

CONSTANTS Senders, Subs, MaxSend, MaxSub

VARIABLES
  sendMu,       \* holder or None
  wHolder,      \* write holder of sendingMu or 0
  wPending,     \* set of senders waiting for the write lock
  readers,      \* number of read holders of sendingMu
  nsubs,        \* atomic subscriber count
  cnt, armed,   \* caster state: receiver count (both words), and whether lo = cnt + Max (a send is in flight)
  pongN,        \* acknowledgements still owed
  pongHeld,     \* holder of pongC.L or 0
  pongWaiting,  \* processes parked on pongC
  spc,          \* [Senders -> pc]
  sloc,         \* [Senders -> [n, st, R, left, sent, v]] locals
  ndone,        \* [Senders -> sends completed]
  upc,          \* [Subs -> pc]
  uok,          \* [Subs -> TryRLock succeeded]
  usubs,        \* [Subs -> subscriptions made so far]
  broken,       \* an invariant panic happened
  \* history
  seq,          \* number of sends that armed so far (message ids)
  got,          \* [Subs -> sequence of message ids received]
  results       \* set of [id, n] for completed sends

vars == <<sendMu, wHolder, wPending, readers, nsubs, cnt, armed, pongN, pongHeld, pongWaiting, spc, sloc, ndone, upc, uok, usubs, broken, seq, got, results>>

None == "none"
Loc0 == [n |-> 0, st |-> 0, R |-> 0, left |-> 0, sent |-> 0, v |-> 0]

Init ==
  /\ sendMu = None /\ wHolder = None /\ wPending = {} /\ readers = 0 /\ nsubs = 0 /\ cnt = 0 /\ armed = FALSE
  /\ pongN = 0 /\ pongHeld = None /\ pongWaiting = {}
  /\ spc = [s \in Senders |-> "idle"] /\ sloc = [s \in Senders |-> Loc0] /\ ndone = [s \in Senders |-> 0]
  /\ upc = [u \in Subs |-> "out"] /\ uok = [u \in Subs |-> FALSE] /\ usubs = [u \in Subs |-> 0]
  /\ broken = FALSE /\ seq = 0 /\ got = [u \in Subs |-> <<>>] /\ results = {}

SetS(s, p) == spc' = [spc EXCEPT ![s] = p]
SetU(u, p) == upc' = [upc EXCEPT ![u] = p]
UNCH_S == UNCHANGED <<upc, uok, usubs, got>>
UNCH_U == UNCHANGED <<spc, sloc, ndone, results, seq>>

-----------------------------------------------------------------------------
(* senders *)
SFast(s) ==
  /\ spc[s] = "idle" /\ ndone[s] < MaxSend
  /\ IF nsubs = 0
       THEN /\ ndone' = [ndone EXCEPT ![s] = @ + 1] /\ UNCHANGED spc          \* returns 0 without blocking
       ELSE /\ SetS(s, "sendMu") /\ UNCHANGED ndone
  /\ UNCHANGED <<sendMu, wHolder, wPending, readers, nsubs, cnt, armed, pongN, pongHeld, pongWaiting, sloc, broken, seq, results>> /\ UNCH_S

SLockSendMu(s) ==
  /\ spc[s] = "sendMu" /\ sendMu = None
  /\ sendMu' = s /\ SetS(s, "wantW")
  /\ UNCHANGED <<wHolder, wPending, readers, nsubs, cnt, armed, pongN, pongHeld, pongWaiting, sloc, ndone, broken, seq, results>> /\ UNCH_S

\* Lock() of the RWMutex: announce (blocks new readers), then acquire when no reader and no writer
SWantW(s) ==
  /\ spc[s] = "wantW"
  /\ wPending' = wPending \cup {s} /\ SetS(s, "lockW")
  /\ UNCHANGED <<sendMu, wHolder, readers, nsubs, cnt, armed, pongN, pongHeld, pongWaiting, sloc, ndone, broken, seq, results>> /\ UNCH_S

SLockW(s) ==
  /\ spc[s] = "lockW" /\ readers = 0 /\ wHolder = None
  /\ wHolder' = s /\ wPending' = wPending \ {s} /\ SetS(s, "loadSubs")
  /\ UNCHANGED <<sendMu, readers, nsubs, cnt, armed, pongN, pongHeld, pongWaiting, sloc, ndone, broken, seq, results>> /\ UNCH_S

SLoadSubs(s) ==
  /\ spc[s] = "loadSubs"
  /\ IF nsubs = 0
       THEN /\ wHolder' = None /\ sendMu' = None /\ SetS(s, "idle") /\ ndone' = [ndone EXCEPT ![s] = @ + 1]
            /\ UNCHANGED sloc
       ELSE /\ sloc' = [sloc EXCEPT ![s].n = nsubs] /\ SetS(s, "pingAdd")
            /\ UNCHANGED <<wHolder, sendMu, ndone>>
  /\ UNCHANGED <<wPending, readers, nsubs, cnt, armed, pongN, pongHeld, pongWaiting, broken, seq, results>> /\ UNCH_S

\* caster Add(+n): must return exactly n (the caster was empty)
SPingAdd(s) ==
  /\ spc[s] = "pingAdd"
  /\ cnt' = cnt + sloc[s].n
  /\ IF cnt + sloc[s].n # sloc[s].n \/ armed THEN broken' = TRUE ELSE UNCHANGED broken
  /\ SetS(s, "casterLoad")
  /\ UNCHANGED <<sendMu, wHolder, wPending, readers, nsubs, armed, pongN, pongHeld, pongWaiting, sloc, ndone, seq, results>> /\ UNCH_S

SCasterLoad(s) ==
  /\ spc[s] = "casterLoad"
  /\ IF cnt = 0 /\ ~armed
       THEN /\ sloc' = [sloc EXCEPT ![s].sent = 0] /\ SetS(s, "unlockW")         \* no receivers (slow path): Send returns 0
       ELSE /\ sloc' = [sloc EXCEPT ![s].st = cnt] /\ SetS(s, "casterCas")
  /\ IF armed THEN broken' = TRUE ELSE UNCHANGED broken
  /\ UNCHANGED <<sendMu, wHolder, wPending, readers, nsubs, cnt, armed, pongN, pongHeld, pongWaiting, ndone, seq, results>> /\ UNCH_S

SCasterCas(s) ==
  /\ spc[s] = "casterCas"
  /\ IF cnt = sloc[s].st /\ ~armed
       THEN /\ armed' = TRUE /\ seq' = seq + 1
            /\ sloc' = [sloc EXCEPT ![s].R = cnt, ![s].left = cnt, ![s].v = seq + 1]
            /\ SetS(s, "sending")
       ELSE /\ SetS(s, "casterLoad") /\ UNCHANGED <<armed, seq, sloc>>
  /\ UNCHANGED <<sendMu, wHolder, wPending, readers, nsubs, cnt, pongN, pongHeld, pongWaiting, ndone, broken, results>> /\ UNCH_S

\* one rendez-vous on C: with a subscriber that is receiving, or with an unsubscriber absorbing its copy
SSendTo(s, u) ==
  /\ spc[s] = "sending" /\ sloc[s].left > 0
  /\ upc[u] \in {"recv", "absorb"}
  /\ sloc' = [sloc EXCEPT ![s].left = @ - 1]
  /\ IF upc[u] = "recv"
       THEN /\ got' = [got EXCEPT ![u] = Append(@, sloc[s].v)] /\ SetU(u, "waitLock")
       ELSE /\ SetU(u, "out") /\ UNCHANGED got
  /\ UNCHANGED <<sendMu, wHolder, wPending, readers, nsubs, cnt, armed, pongN, pongHeld, pongWaiting, spc, ndone, uok, usubs, broken, seq, results>>

SSendDone(s) ==
  /\ spc[s] = "sending" /\ sloc[s].left = 0
  /\ SetS(s, "finalLoad")
  /\ UNCHANGED <<sendMu, wHolder, wPending, readers, nsubs, cnt, armed, pongN, pongHeld, pongWaiting, sloc, ndone, broken, seq, results>> /\ UNCH_S

SFinalLoad(s) ==
  /\ spc[s] = "finalLoad"
  /\ sloc' = [sloc EXCEPT ![s].st = cnt]
  /\ IF cnt > sloc[s].R \/ ~armed THEN broken' = TRUE ELSE UNCHANGED broken
  /\ SetS(s, "finalCas")
  /\ UNCHANGED <<sendMu, wHolder, wPending, readers, nsubs, cnt, armed, pongN, pongHeld, pongWaiting, ndone, seq, results>> /\ UNCH_S

SFinalCas(s) ==
  /\ spc[s] = "finalCas"
  /\ IF cnt = sloc[s].st /\ armed
       THEN /\ cnt' = 0 /\ armed' = FALSE /\ sloc' = [sloc EXCEPT ![s].sent = sloc[s].st] /\ UNCHANGED broken
       ELSE /\ broken' = TRUE /\ UNCHANGED <<cnt, armed, sloc>>          \* "unregistered receivers": invariant panic
  /\ SetS(s, "unlockW")
  /\ UNCHANGED <<sendMu, wHolder, wPending, readers, nsubs, pongN, pongHeld, pongWaiting, ndone, seq, results>> /\ UNCH_S

SUnlockW(s) ==
  /\ spc[s] = "unlockW"
  /\ wHolder' = None
  /\ SetS(s, IF sloc[s].sent = 0 THEN "finish" ELSE "pongLock")
  /\ UNCHANGED <<sendMu, wPending, readers, nsubs, cnt, armed, pongN, pongHeld, pongWaiting, sloc, ndone, broken, seq, results>> /\ UNCH_S

SPongLock(s) ==
  /\ spc[s] = "pongLock" /\ pongHeld = None
  /\ pongHeld' = s /\ SetS(s, "pongSet")
  /\ UNCHANGED <<sendMu, wHolder, wPending, readers, nsubs, cnt, armed, pongN, pongWaiting, sloc, ndone, broken, seq, results>> /\ UNCH_S

SPongSet(s) ==
  /\ spc[s] = "pongSet"
  /\ pongN' = sloc[s].sent /\ pongWaiting' = {} /\ SetS(s, "pongLoop")
  /\ UNCHANGED <<sendMu, wHolder, wPending, readers, nsubs, cnt, armed, pongHeld, sloc, ndone, broken, seq, results>> /\ UNCH_S

\* for pongN != 0 { pongC.Wait() }
SPongLoop(s) ==
  /\ spc[s] = "pongLoop" /\ pongHeld = s
  /\ IF pongN # 0
       THEN /\ pongHeld' = None /\ pongWaiting' = pongWaiting \cup {s} /\ SetS(s, "pongParked")
       ELSE /\ pongHeld' = None /\ SetS(s, "finish") /\ UNCHANGED pongWaiting
  /\ UNCHANGED <<sendMu, wHolder, wPending, readers, nsubs, cnt, armed, pongN, sloc, ndone, broken, seq, results>> /\ UNCH_S

SPongWake(s) ==
  /\ spc[s] = "pongParked" /\ s \notin pongWaiting /\ pongHeld = None
  /\ pongHeld' = s /\ SetS(s, "pongLoop")
  /\ UNCHANGED <<sendMu, wHolder, wPending, readers, nsubs, cnt, armed, pongN, pongWaiting, sloc, ndone, broken, seq, results>> /\ UNCH_S

SFinish(s) ==
  /\ spc[s] = "finish"
  /\ sendMu' = None /\ SetS(s, "idle")
  /\ ndone' = [ndone EXCEPT ![s] = @ + 1]
  /\ results' = IF sloc[s].v # 0 THEN results \cup {[id |-> sloc[s].v, n |-> sloc[s].sent]} ELSE results
  /\ sloc' = [sloc EXCEPT ![s] = Loc0]
  /\ UNCHANGED <<wHolder, wPending, readers, nsubs, cnt, armed, pongN, pongHeld, pongWaiting, broken, seq>> /\ UNCH_S

-----------------------------------------------------------------------------
(* subscribers *)
\* Add(+1): RLock (blocked by a holding or pending writer), increment, RUnlock - one step
USubscribe(u) ==
  /\ upc[u] = "out" /\ usubs[u] < MaxSub
  /\ wHolder = None /\ wPending = {}
  /\ nsubs' = nsubs + 1 /\ usubs' = [usubs EXCEPT ![u] = @ + 1]
  /\ SetU(u, "in")
  /\ UNCHANGED <<sendMu, wHolder, wPending, readers, cnt, armed, pongN, pongHeld, pongWaiting, uok, broken, got>> /\ UNCH_U

\* a standing subscriber decides to receive, or to unsubscribe
UChooseRecv(u)  == upc[u] = "in" /\ SetU(u, "recv") /\ UNCHANGED <<sendMu, wHolder, wPending, readers, nsubs, cnt, armed, pongN, pongHeld, pongWaiting, uok, usubs, broken, got>> /\ UNCH_U
\* a subscriber that is waiting to receive may give up and unsubscribe instead (select with another case)
UChooseUnsub(u) == upc[u] \in {"in", "recv"} /\ SetU(u, "tryR") /\ UNCHANGED <<sendMu, wHolder, wPending, readers, nsubs, cnt, armed, pongN, pongHeld, pongWaiting, uok, usubs, broken, got>> /\ UNCH_U

\* Wait(): lock; for pongN == 0 { wait }; pongN--; broadcast if 0; unlock
UWaitLock(u) ==
  /\ upc[u] = "waitLock" /\ pongHeld = None
  /\ pongHeld' = u /\ SetU(u, "waitLoop")
  /\ UNCHANGED <<sendMu, wHolder, wPending, readers, nsubs, cnt, armed, pongN, pongWaiting, uok, usubs, broken, got>> /\ UNCH_U

UWaitLoop(u) ==
  /\ upc[u] = "waitLoop" /\ pongHeld = u
  /\ IF pongN = 0
       THEN /\ pongHeld' = None /\ pongWaiting' = pongWaiting \cup {u} /\ SetU(u, "waitParked") /\ UNCHANGED pongN
       ELSE /\ pongN' = pongN - 1
            /\ pongWaiting' = IF pongN - 1 = 0 THEN {} ELSE pongWaiting
            /\ pongHeld' = None /\ SetU(u, "in")
  /\ UNCHANGED <<sendMu, wHolder, wPending, readers, nsubs, cnt, armed, uok, usubs, broken, got>> /\ UNCH_U

UWaitWake(u) ==
  /\ upc[u] = "waitParked" /\ u \notin pongWaiting /\ pongHeld = None
  /\ pongHeld' = u /\ SetU(u, "waitLoop")
  /\ UNCHANGED <<sendMu, wHolder, wPending, readers, nsubs, cnt, armed, pongN, pongWaiting, uok, usubs, broken, got>> /\ UNCH_U

\* Add(-1): ok := TryRLock(); for !ok && ping.Add(0) == 0 { ok = TryRLock() }
UTryR(u) ==
  /\ upc[u] = "tryR"
  /\ IF wHolder = None /\ wPending = {}
       THEN /\ readers' = readers + 1 /\ uok' = [uok EXCEPT ![u] = TRUE] /\ SetU(u, "dec")
       ELSE /\ UNCHANGED readers
            /\ IF cnt = 0 /\ ~armed
                 THEN /\ UNCHANGED <<uok, upc>>                                   \* spin
                 ELSE /\ uok' = [uok EXCEPT ![u] = FALSE] /\ SetU(u, "dec")
  /\ UNCHANGED <<sendMu, wHolder, wPending, nsubs, cnt, armed, pongN, pongHeld, pongWaiting, usubs, broken, got>> /\ UNCH_U

UDec(u) ==
  /\ upc[u] = "dec"
  /\ nsubs' = nsubs - 1
  /\ IF nsubs - 1 < 0 THEN broken' = TRUE ELSE UNCHANGED broken
  /\ IF uok[u] THEN readers' = readers - 1 /\ SetU(u, "out")
               ELSE UNCHANGED readers /\ SetU(u, "pingDec")
  /\ UNCHANGED <<sendMu, wHolder, wPending, cnt, armed, pongN, pongHeld, pongWaiting, uok, usubs, got>> /\ UNCH_U

\* caster Add(-1): subtract from both words; absorb one value if a send is in flight
UPingDec(u) ==
  /\ upc[u] = "pingDec"
  /\ cnt' = cnt - 1
  /\ IF cnt - 1 < 0 THEN broken' = TRUE ELSE UNCHANGED broken
  /\ SetU(u, IF armed THEN "absorb" ELSE "out")
  /\ UNCHANGED <<sendMu, wHolder, wPending, readers, nsubs, armed, pongN, pongHeld, pongWaiting, uok, usubs, got>> /\ UNCH_U

Next ==
  \/ \E s \in Senders : SFast(s) \/ SLockSendMu(s) \/ SWantW(s) \/ SLockW(s) \/ SLoadSubs(s) \/ SPingAdd(s) \/ SCasterLoad(s)
        \/ SCasterCas(s) \/ SSendDone(s) \/ SFinalLoad(s) \/ SFinalCas(s) \/ SUnlockW(s) \/ SPongLock(s) \/ SPongSet(s)
        \/ SPongLoop(s) \/ SPongWake(s) \/ SFinish(s) \/ (\E u \in Subs : SSendTo(s, u))
  \/ \E u \in Subs : USubscribe(u) \/ UChooseRecv(u) \/ UChooseUnsub(u) \/ UWaitLock(u) \/ UWaitLoop(u) \/ UWaitWake(u)
        \/ UTryR(u) \/ UDec(u) \/ UPingDec(u)

\* every process step is weakly fair, except the free choices of the environment (to subscribe, to start a send);
\* a standing subscriber must eventually receive or unsubscribe (the contract)
SStep(s) == SLockSendMu(s) \/ SWantW(s) \/ SLockW(s) \/ SLoadSubs(s) \/ SPingAdd(s) \/ SCasterLoad(s) \/ SCasterCas(s)
            \/ SSendDone(s) \/ SFinalLoad(s) \/ SFinalCas(s) \/ SUnlockW(s) \/ SPongLock(s) \/ SPongSet(s) \/ SPongLoop(s)
            \/ SPongWake(s) \/ SFinish(s) \/ (\E u \in Subs : SSendTo(s, u))
UStep(u) == UWaitLock(u) \/ UWaitLoop(u) \/ UWaitWake(u) \/ UTryR(u) \/ UDec(u) \/ UPingDec(u)
Spec == Init /\ [][Next]_vars
        /\ \A s \in Senders : WF_vars(SStep(s))
        /\ \A u \in Subs : WF_vars(UStep(u)) /\ WF_vars(UChooseRecv(u) \/ UChooseUnsub(u))

-----------------------------------------------------------------------------
\* C07: no invariant panic when the contract is obeyed
NotBroken == ~broken
\* C06: nobody receives a message twice; every subscriber sees an increasing run of the one global order
NoDuplicates == \A u \in Subs : \A i, j \in 1..Len(got[u]) : i < j => got[u][i] < got[u][j]
\* C06: the count a Send returns is the number of receipts of that very message
CountIsReceipts == \A r \in results : r.n = Cardinality({u \in Subs : \E i \in 1..Len(got[u]) : got[u][i] = r.id})
\* C07: when everything is idle the counters agree with the membership
QuietConsistent ==
  ((\A s \in Senders : spc[s] = "idle") /\ (\A u \in Subs : upc[u] \in {"in", "out", "recv"}))
     => (nsubs = Cardinality({u \in Subs : upc[u] \in {"in", "recv"}}) /\ cnt = 0 /\ ~armed /\ pongN = 0)
\* C07 (liveness): every send terminates, every unsubscribe terminates
SendTerminates == \A s \in Senders : (spc[s] # "idle") ~> (spc[s] = "idle")
UnsubTerminates == \A u \in Subs : (upc[u] = "tryR") ~> (upc[u] = "out")
=============================================================================
