------------------------------ MODULE BufferL1 ------------------------------
(***************************************************************************)
(* L1 (API-atomic) specification of bigbuff.Buffer and its consumers.      *)
(*                                                                         *)
(* One action per public call at its linearization point; calls that can   *)
(* block while holding the consumer mutex (Get) or a sync.Once (Close) are *)
(* split into the steps at which other calls can observe them.  The        *)
(* variables are the abstract state the properties C01-C05 and C12 talk    *)
(* about.  The module is used three ways:                                  *)
(*   - BufferMC.tla  : exhaustive model checking for small constants       *)
(*   - BufferTV.tla  : validation of histories recorded from the real code *)
(*   - BufferL2.tla  : refinement target of the lock/cond level protocol   *)
(***************************************************************************)
EXTENDS Integers, Sequences, FiniteSets, TLC

CONSTANTS Cons,      \* consumer identifiers
          NoG        \* "no goroutine" (mutex free / nobody)

VARIABLES
  log,        \* sequence of every value successfully Put, in Put order
  base,       \* number of values evicted so far (absolute index of the oldest retained value)
  reg,        \* set of consumers registered in the buffer (hold back the default cleaner)
  committed,  \* [Cons -> Nat]  absolute committed offset
  delta,      \* [Cons -> Nat]  reads since the last commit/rollback
  cst,        \* [Cons -> {"absent","open","closing","closed"}]; "closing" = its context is cancelled
  once,       \* [Cons -> BOOLEAN]  the consumer's close-once has been taken
  closer,     \* [Cons -> caller that took the once, or NoG for the library's own watcher]
  cmu,        \* [Cons -> holder of the consumer mutex, or NoG]
  bclosed,    \* the buffer's context is cancelled
  bonce,      \* the buffer's close-once has been taken
  bcloser,    \* who took it
  bdone,      \* Buffer.Close has completed (Done closed)
  cleaner,    \* [kind |-> "default"] or [kind |-> "fixed", max |-> m, target |-> t]
  start,      \* history: [Cons -> base at creation]
  stream      \* history: [Cons -> sequence of values obtained, a value re-read after rollback counted once]

bvars == <<log, base, reg, committed, delta, cst, once, closer, cmu, bclosed, bonce, bcloser, bdone, cleaner>>
hvars == <<start, stream>>
vars  == <<bvars, hvars>>

Min(S) == CHOOSE x \in S : \A y \in S : x <= y
Size  == Len(log) - base
Pos(c) == committed[c] + delta[c]          \* absolute read position of consumer c
Retained == SubSeq(log, base + 1, Len(log))

(***************************************************************************)
(* The cleaner functions, transcribed from bigbuff.go (DefaultCleaner,     *)
(* FixedBufferCleaner) and buffer.go (cleanupLogic's clamp).  offs is a    *)
(* function from some index set to relative offsets (a bag).               *)
(***************************************************************************)
DefaultCleanerFn(size, offs) ==
  LET O == {offs[i] : i \in DOMAIN offs} IN
  IF 0 \in O THEN 0
  ELSE LET P == {o \in O : o > 0} IN
       IF P = {} THEN 0 ELSE Min(P \cup {size})

FixedCleanerFn(max, target, size, offs) ==
  IF size > max THEN size - target ELSE DefaultCleanerFn(size, offs)

Clamp(shift, size) == IF shift > size THEN size ELSE IF shift <= 0 THEN 0 ELSE shift

\* kind "const": a custom cleaner that always answers cl.max (whatever the size and the offsets)
CleanerFn(cl, size, offs) ==
  IF cl.kind = "fixed" THEN FixedCleanerFn(cl.max, cl.target, size, offs)
  ELSE IF cl.kind = "const" THEN cl.max
  ELSE DefaultCleanerFn(size, offs)

RelOffsets == [c \in reg |-> committed[c] - base]
CleanShift == Clamp(CleanerFn(cleaner, Size, RelOffsets), Size)

-----------------------------------------------------------------------------
Init ==
  /\ log = <<>> /\ base = 0 /\ reg = {}
  /\ committed = [c \in Cons |-> 0] /\ delta = [c \in Cons |-> 0]
  /\ cst = [c \in Cons |-> "absent"] /\ once = [c \in Cons |-> FALSE]
  /\ closer = [c \in Cons |-> NoG] /\ cmu = [c \in Cons |-> NoG]
  /\ bclosed = FALSE /\ bonce = FALSE /\ bcloser = NoG /\ bdone = FALSE
  /\ cleaner = [kind |-> "default"]
  /\ start = [c \in Cons |-> 0] /\ stream = [c \in Cons |-> <<>>]

(***************************************************************************)
(* cx describes the call's own context at the linearization point:         *)
(*   "live" not cancelled, "pre" cancelled before the call was made,       *)
(*   "now"  cancelled after the call was made.                             *)
(* A context error needs cx # "live"; success needs cx # "pre".            *)
(***************************************************************************)
CX == {"live", "pre", "now"}

\* Put(ctx, vals...): r \in {"ok","canceled"}
Put(vals, cx, r) ==
  \/ /\ r = "ok" /\ cx # "pre" /\ ~bclosed
     /\ log' = log \o vals
     /\ UNCHANGED <<base, reg, committed, delta, cst, once, closer, cmu, bclosed, bonce, bcloser, bdone, cleaner, hvars>>
  \/ /\ r = "canceled" /\ (cx # "live" \/ bclosed)
     /\ UNCHANGED vars

\* NewConsumer(): c is the identity of the consumer created when r = "ok"
NewConsumer(c, r) ==
  \/ /\ r = "ok" /\ ~bclosed /\ cst[c] = "absent"
     /\ reg' = reg \cup {c}
     /\ committed' = [committed EXCEPT ![c] = base]
     /\ cst' = [cst EXCEPT ![c] = "open"]
     /\ start' = [start EXCEPT ![c] = base]
     /\ UNCHANGED <<log, base, delta, once, closer, cmu, bclosed, bonce, bcloser, bdone, cleaner, stream>>
  \/ /\ r = "canceled" /\ bclosed
     /\ UNCHANGED vars

\* Get returns the context error before touching the consumer when its context is already cancelled
GetQuick(c, cx, r) ==
  /\ r = "canceled" /\ cx # "live"
  /\ UNCHANGED vars

\* Get takes the consumer mutex and keeps it until it returns
GetAcquire(g, c) ==
  /\ cmu[c] = NoG
  /\ cmu' = [cmu EXCEPT ![c] = g]
  /\ UNCHANGED <<log, base, reg, committed, delta, cst, once, closer, bclosed, bonce, bcloser, bdone, cleaner, hvars>>

Available(c) == cst[c] = "open" /\ ~bclosed /\ base <= Pos(c) /\ Pos(c) < Len(log)
Past(c)      == c \in reg /\ Pos(c) < base

\* the value that stream[c] gains: a re-read after a rollback is counted once
StreamAfterGet(c, v) ==
  LET k == (Pos(c) - start[c]) + 1 IN       \* 1-based index in the consumer's stream
  IF k <= Len(stream[c]) THEN stream[c] ELSE Append(stream[c], v)

GetDone(g, c, cx, r, v) ==
  /\ cmu[c] = g
  /\ \/ /\ r = "ok" /\ cx # "pre" /\ Available(c)
        /\ v = log[Pos(c) + 1]
        /\ delta' = [delta EXCEPT ![c] = @ + 1]
        /\ stream' = [stream EXCEPT ![c] = StreamAfterGet(c, v)]
        /\ UNCHANGED <<log, base, reg, committed, cst, once, closer, bclosed, bonce, bcloser, bdone, cleaner, start>>
     \/ /\ r = "past" /\ Past(c) /\ ~bclosed
        /\ UNCHANGED <<log, base, reg, committed, delta, cst, once, closer, bclosed, bonce, bcloser, bdone, cleaner, hvars>>
     \/ /\ r = "canceled" /\ (cx # "live" \/ cst[c] # "open" \/ bclosed)
        /\ UNCHANGED <<log, base, reg, committed, delta, cst, once, closer, bclosed, bonce, bcloser, bdone, cleaner, hvars>>
  /\ cmu' = [cmu EXCEPT ![c] = NoG]

\* a Get that holds the mutex can complete (used for stuck-detection: a blocked Get must not be completable)
GetCanComplete(c, cx) == Available(c) \/ Past(c) \/ cx # "live" \/ cst[c] # "open" \/ bclosed

Commit(c, r) ==
  /\ cmu[c] = NoG
  /\ \/ /\ r = "nothing" /\ delta[c] = 0 /\ UNCHANGED vars
     \/ /\ r = "ok" /\ delta[c] > 0 /\ c \in reg
        /\ committed' = [committed EXCEPT ![c] = @ + delta[c]]
        /\ delta' = [delta EXCEPT ![c] = 0]
        /\ UNCHANGED <<log, base, reg, cst, once, closer, cmu, bclosed, bonce, bcloser, bdone, cleaner, hvars>>
     \/ /\ r = "unknown" /\ delta[c] > 0 /\ c \notin reg /\ UNCHANGED vars

Rollback(c, r) ==
  /\ cmu[c] = NoG
  /\ \/ /\ r = "nothing" /\ delta[c] = 0 /\ UNCHANGED vars
     \/ /\ r = "ok" /\ delta[c] > 0
        /\ delta' = [delta EXCEPT ![c] = 0]
        /\ UNCHANGED <<log, base, reg, committed, cst, once, closer, cmu, bclosed, bonce, bcloser, bdone, cleaner, hvars>>

\* observers (no state change); the observed value is a parameter constrained by the state
SizeObs(n)      == n = Size /\ UNCHANGED vars
SliceObs(s)     == s = Retained /\ UNCHANGED vars
DiffObs(c, d, ok) ==
  /\ cmu[c] = NoG
  /\ IF c \in reg THEN ok /\ d = Len(log) - Pos(c) ELSE ~ok /\ d = 0
  /\ UNCHANGED vars

SetCleaner(cl) ==
  /\ cleaner' = cl
  /\ UNCHANGED <<log, base, reg, committed, delta, cst, once, closer, cmu, bclosed, bonce, bcloser, bdone, hvars>>

(***************************************************************************)
(* consumer.Close: take the once; take the mutex and cancel; wait until    *)
(* nothing is uncommitted; deregister.  The library's watcher goroutine    *)
(* does the same (caller NoG) when the consumer's context is cancelled.    *)
(***************************************************************************)
CloseBegin(g, c) ==
  /\ cst[c] \in {"open", "closing"} /\ ~once[c]
  /\ g = NoG => cst[c] = "closing"                \* the watcher only runs after the context is cancelled
  /\ once' = [once EXCEPT ![c] = TRUE]
  /\ closer' = [closer EXCEPT ![c] = g]
  /\ UNCHANGED <<log, base, reg, committed, delta, cst, cmu, bclosed, bonce, bcloser, bdone, cleaner, hvars>>

CloseCancel(c) ==
  /\ once[c] /\ cst[c] = "open" /\ cmu[c] = NoG
  /\ cst' = [cst EXCEPT ![c] = "closing"]
  /\ UNCHANGED <<log, base, reg, committed, delta, once, closer, cmu, bclosed, bonce, bcloser, bdone, cleaner, hvars>>

CloseFinish(c) ==
  /\ once[c] /\ cst[c] = "closing" /\ cmu[c] = NoG /\ delta[c] = 0
  /\ cst' = [cst EXCEPT ![c] = "closed"]
  /\ reg' = reg \ {c}
  /\ UNCHANGED <<log, base, committed, delta, once, closer, cmu, bclosed, bonce, bcloser, bdone, cleaner, hvars>>

\* a Close call that did not take the once returns an error after the first Close has completed
CloseAgain(c, r) == r = "once" /\ cst[c] = "closed" /\ UNCHANGED vars
\* the Close call that took the once returns nil after completion
CloseOk(g, c, r) == r = "ok" /\ cst[c] = "closed" /\ closer[c] = g /\ UNCHANGED vars

BCloseBegin(g) ==
  /\ ~bonce /\ bonce' = TRUE /\ bcloser' = g
  /\ UNCHANGED <<log, base, reg, committed, delta, cst, once, closer, cmu, bclosed, bdone, cleaner, hvars>>

BCloseCancel ==
  /\ bonce /\ ~bclosed
  /\ bclosed' = TRUE
  /\ cst' = [c \in Cons |-> IF cst[c] = "open" THEN "closing" ELSE cst[c]]
  /\ UNCHANGED <<log, base, reg, committed, delta, once, closer, cmu, bonce, bcloser, bdone, cleaner, hvars>>

BCloseFinish ==
  /\ bclosed /\ ~bdone /\ reg = {}
  /\ bdone' = TRUE
  /\ UNCHANGED <<log, base, reg, committed, delta, cst, once, closer, cmu, bclosed, bonce, bcloser, cleaner, hvars>>

BCloseAgain(r) == r = "once" /\ bdone /\ UNCHANGED vars
BCloseOk(g, r) == r = "ok" /\ bdone /\ bcloser = g /\ UNCHANGED vars

\* the background cleaner: shifts the buffer by what the configured cleaner function says (clamped)
Clean ==
  /\ ~bclosed /\ CleanShift > 0
  /\ base' = base + CleanShift
  /\ UNCHANGED <<log, reg, committed, delta, cst, once, closer, cmu, bclosed, bonce, bcloser, bdone, cleaner, hvars>>

-----------------------------------------------------------------------------
(***************************************************************************)
(* Properties                                                              *)
(***************************************************************************)
TypeOK ==
  /\ base \in 0..Len(log)
  /\ \A c \in Cons : committed[c] >= 0 /\ delta[c] >= 0
  /\ reg = {c \in Cons : cst[c] \in {"open", "closing"}}

\* C01: every consumer's stream is a contiguous run of the put order that starts at its start
FIFO == \A c \in Cons :
  /\ start[c] + Len(stream[c]) <= Len(log)
  /\ stream[c] = SubSeq(log, start[c] + 1, start[c] + Len(stream[c]))

\* C01/C02: committed + uncommitted reads never run ahead of what the consumer has seen
ReadPositionInStream == \A c \in Cons : cst[c] # "absent" => Pos(c) <= start[c] + Len(stream[c])

\* C03 (action property): under the default cleaner nothing is evicted that a registered consumer (which had not
\* already fallen behind under another cleaner) has not committed past
Retention == [][cleaner.kind = "default" =>
                   \A c \in reg : committed[c] >= base => base' <= committed[c]]_vars

\* C03 (action property): nothing is evicted while no consumer is registered (default cleaner)
NoEvictionWithoutConsumers == [][(cleaner.kind = "default" /\ reg = {}) => base' = base]_vars

\* C01 (action property): the put order only grows at its end
AppendOnly == [][Len(log') >= Len(log) /\ SubSeq(log', 1, Len(log)) = log]_vars

\* C04: with FixedBufferCleaner(max,target), target<=max: when the cleaner has nothing to do, size <= max
FixedBound == (cleaner.kind = "fixed" /\ cleaner.target <= cleaner.max /\ cleaner.target >= 0 /\ ~bclosed /\ CleanShift = 0)
                 => Size <= cleaner.max

\* C04: when the cleaner has nothing to do under the default cleaner, the retained size is the backlog of the slowest
Reclaimed == (cleaner.kind = "default" /\ ~bclosed /\ CleanShift = 0 /\ reg # {} /\ \A c \in reg : committed[c] >= base)
                 => base = Min({committed[c] : c \in reg} \cup {Len(log)})
=============================================================================
