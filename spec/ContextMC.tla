------------------------------ MODULE ContextMC ------------------------------
(***************************************************************************)
(* The context combinators (C16) as small asynchronous protocols over      *)
(* context.AfterFunc registrations:                                        *)
(*  ChainAfterFunc(ctx, other, f): hook A on other runs f; hook B on ctx   *)
(*    runs f iff stop(A) returns true (A had not started).                 *)
(*  ConflatedContext(c1..cn): one ChainAfterFunc(result, ci, wg.Done) per  *)
(*    live input plus a guard count; a waiter cancels the result when the  *)
(*    wait group reaches zero; the result can also be cancelled directly.  *)
(*  CombineContext(p, o1..ok): AfterFunc(oi, cancel) for every other; when *)
(*    the result is cancelled all registrations are stopped.               *)
(* Cancellations of inputs are environment actions; hooks fire as separate *)
(* steps (AfterFunc runs its function in its own goroutine).               *)
(***************************************************************************)
EXTENDS Integers, Sequences, FiniteSets, TLC

CONSTANTS N      \* number of inputs (conflated) / others (combine)
In == 1..N

VARIABLES
  live,       \* [In -> BOOLEAN] input i not cancelled
  pre,        \* [In -> BOOLEAN] cancelled before construction
  \* conflated
  hookA,      \* [In -> "none" | "armed" | "fired" | "stopped"]  hook on input i (runs wg.Done)
  hookB,      \* [In -> "none" | "armed" | "fired"]              hook on the result (stops A, else runs wg.Done)
  wg, resLive, explicitCancel, waiterDone, dones,
  \* combine
  cLive, cReg     \* result live; [In -> "armed" | "fired" | "stopped"]
vars == <<live, pre, hookA, hookB, wg, resLive, explicitCancel, waiterDone, dones, cLive, cReg>>

Init ==
  /\ pre \in [In -> BOOLEAN]
  /\ live = [i \in In |-> ~pre[i]]
  /\ hookA = [i \in In |-> IF pre[i] THEN "none" ELSE "armed"]
  /\ hookB = [i \in In |-> IF pre[i] THEN "none" ELSE "armed"]
  /\ wg = Cardinality({i \in In : ~pre[i]})
  /\ resLive = (\E i \in In : ~pre[i])          \* all inputs cancelled at construction: returned already cancelled
  /\ explicitCancel = FALSE /\ waiterDone = FALSE
  /\ dones = [i \in In |-> 0]
  /\ cLive = (\A i \in In : ~pre[i])            \* combine: already cancelled if any other already is
  /\ cReg = [i \in In |-> IF \A j \in In : ~pre[j] THEN "armed" ELSE "stopped"]

CancelInput(i) == live[i] /\ live' = [live EXCEPT ![i] = FALSE]
                  /\ UNCHANGED <<pre, hookA, hookB, wg, resLive, explicitCancel, waiterDone, dones, cLive, cReg>>

\* conflated: hook A of input i fires (its context is cancelled): runs wg.Done once
FireA(i) ==
  /\ hookA[i] = "armed" /\ ~live[i]
  /\ hookA' = [hookA EXCEPT ![i] = "fired"]
  /\ wg' = wg - 1 /\ dones' = [dones EXCEPT ![i] = @ + 1]
  /\ UNCHANGED <<live, pre, hookB, resLive, explicitCancel, waiterDone, cLive, cReg>>

\* conflated: hook B (on the result) fires when the result is cancelled: stop(A) decides
FireB(i) ==
  /\ hookB[i] = "armed" /\ ~resLive
  /\ hookB' = [hookB EXCEPT ![i] = "fired"]
  /\ IF hookA[i] = "armed"
       THEN /\ hookA' = [hookA EXCEPT ![i] = "stopped"] /\ wg' = wg - 1 /\ dones' = [dones EXCEPT ![i] = @ + 1]
       ELSE UNCHANGED <<hookA, wg, dones>>
  /\ UNCHANGED <<live, pre, resLive, explicitCancel, waiterDone, cLive, cReg>>

\* conflated: the waiter goroutine: wg.Wait(); cancel()
Waiter ==
  /\ ~waiterDone /\ wg = 0 /\ (\E i \in In : ~pre[i])
  /\ waiterDone' = TRUE /\ resLive' = FALSE
  /\ UNCHANGED <<live, pre, hookA, hookB, wg, explicitCancel, dones, cLive, cReg>>

ExplicitCancel ==
  /\ ~explicitCancel /\ explicitCancel' = TRUE /\ resLive' = FALSE
  /\ UNCHANGED <<live, pre, hookA, hookB, wg, waiterDone, dones, cLive, cReg>>

\* combine: a registration on other i fires and cancels the result; once cancelled every registration is stopped
CombineFire(i) ==
  /\ cReg[i] = "armed" /\ ~live[i]
  /\ cReg' = [cReg EXCEPT ![i] = "fired"] /\ cLive' = FALSE
  /\ UNCHANGED <<live, pre, hookA, hookB, wg, resLive, explicitCancel, waiterDone, dones>>
CombineStop ==
  /\ ~cLive /\ \E i \in In : cReg[i] = "armed"
  /\ cReg' = [i \in In |-> IF cReg[i] = "armed" THEN "stopped" ELSE cReg[i]]
  /\ UNCHANGED <<live, pre, hookA, hookB, wg, resLive, explicitCancel, waiterDone, dones, cLive>>

Next == \/ \E i \in In : CancelInput(i) \/ FireA(i) \/ FireB(i) \/ CombineFire(i)
        \/ Waiter \/ ExplicitCancel \/ CombineStop
Spec == Init /\ [][Next]_vars /\ \A i \in In : WF_vars(FireA(i)) /\ WF_vars(FireB(i)) /\ WF_vars(CombineFire(i))
        /\ WF_vars(Waiter) /\ WF_vars(CombineStop)

\* C16: the chained function runs at most once per input, exactly once when either context is cancelled
ChainAtMostOnce == \A i \in In : dones[i] <= 1
ChainExactlyOnce == \A i \in In : (~pre[i] /\ (~live[i] \/ ~resLive)) ~> (dones[i] = 1)
ChainNeverSpontaneous == \A i \in In : (live[i] /\ resLive) => dones[i] = 0
\* C16: the conflated result stays live while an input is live and nobody called cancel
ConflatedLiveWhileAnyLive == ((\E i \in In : live[i]) /\ ~explicitCancel) => resLive
ConflatedEventuallyCancelled == ((\A i \in In : ~live[i]) \/ explicitCancel) ~> ~resLive
WgNonNegative == wg >= 0
\* C16: combine is cancelled exactly when an other is (the primary is handled by context.WithCancel itself)
CombineCancelledOnlyIfOther == ~cLive => \E i \in In : ~live[i]
CombineEventually == (\E i \in In : ~live[i]) ~> ~cLive
\* C12: no registration survives the cancellation of the combined context
CombineCleansUp == ~cLive ~> (\A i \in In : cReg[i] # "armed")
=============================================================================
