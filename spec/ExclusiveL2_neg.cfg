SPECIFICATION Spec
CONSTANTS
  Callers = {1, 2, 3}
  KeyOf <- MCKeyOf
  MaxItems = 7
  SuccRunning = FALSE
INVARIANTS AnsweredByLater ExecsLeCalls CleanAtEnd
PROPERTIES NoOverlap Answered
CHECK_DEADLOCK FALSE
