------------------------------ MODULE PubSubTV ------------------------------
(***************************************************************************)
(* Trace validation of recorded bigbuff.ChanPubSub histories (C06, C07).   *)
(* A deterministic history checker: every line is checked against what the *)
(* earlier lines allow; counts that may lag behind in the log (iterator     *)
(* style subscribers log a value only after Wait) are settled at the next   *)
(* quiescent / final line.                                                  *)
(*  sub g      : subscription of g established (ret of Subscribe/Add(1))    *)
(*  recv g v   : g received v (manual subscribers: logged before Wait)      *)
(*  wd g       : g starts to withdraw (call of Unsubscribe, iterator break, *)
(*               or cancellation of its context)                           *)
(***************************************************************************)
EXTENDS Integers, Sequences, FiniteSets, TLC, Json, IOUtils, TLCExt

TLog == ndJsonDeserialize(IOEnv.TRACE)
NL   == Len(TLog)
GS == {TLog[i].g : i \in {j \in 1..NL : "g" \in DOMAIN TLog[j]}}

VARIABLES l, pend,
  madeAt,      \* [g -> line at which its current subscription was requested (call Sub), 0 = none]
  estab,       \* subscribers whose subscription is established and not withdrawing
  active,      \* subscribers between call Sub and ret Unsub (may legitimately receive)
  inflight,    \* [sender -> [v, standing, withdrew]]
  sends,       \* [v -> [n, retLine, must]]  completed sends
  sentVals,    \* values whose Send has been called
  got,         \* [v -> set of subscribers that received v]
  seen,        \* [g -> sequence of values received during the current subscription]
  unacked,     \* manual subscribers that received and have not called Wait yet
  rounds,      \* sequence of values in order of their first receipt (the global order)
  strict,      \* the execution was recorded under the controlled scheduler (log order is exact)
  autos,       \* standing subscriptions whose iterator is never run (they hold up a Send until their context is cancelled)
  wdEarly      \* subscribers whose withdrawal began before their Subscribe returned (context cancelled meanwhile / before)
vars == <<madeAt, estab, active, inflight, sends, sentVals, got, seen, unacked, rounds, strict, autos, wdEarly>>
tvars == <<vars, l, pend>>
Idle == [st |-> "idle", line |-> 0]

Get(f, k, d) == IF k \in DOMAIN f THEN f[k] ELSE d
Put(f, k, v) == [x \in DOMAIN f \cup {k} |-> IF x = k THEN v ELSE f[x]]
Idx(sq, v) == IF \E i \in 1..Len(sq) : sq[i] = v THEN CHOOSE i \in 1..Len(sq) : sq[i] = v ELSE 0

TVInit ==
  /\ l = 1 /\ pend = [g \in GS |-> Idle]
  /\ madeAt = <<>> /\ estab = {} /\ active = {} /\ inflight = <<>> /\ sends = <<>> /\ sentVals = {} /\ got = <<>>
  /\ seen = <<>> /\ unacked = {} /\ rounds = <<>> /\ strict = FALSE /\ autos = {} /\ wdEarly = {}
  /\ TLCSet(1, 0)

Cur == TLog[l]
IsEv(e) == l <= NL /\ Cur.ev = e
Consume == l' = l + 1

TReset ==
  /\ IsEv("reset") /\ Consume
  /\ pend' = [g \in GS |-> Idle]
  /\ madeAt' = <<>> /\ estab' = {} /\ active' = {} /\ inflight' = <<>> /\ sends' = <<>> /\ sentVals' = {} /\ got' = <<>>
  /\ seen' = <<>> /\ unacked' = {} /\ rounds' = <<>> /\ strict' = (Cur.mode = "c") /\ autos' = {} /\ wdEarly' = {}

Withdraw(S) ==   \* the subscribers in S start to withdraw
  /\ estab' = estab \ S
  /\ inflight' = [s \in DOMAIN inflight |-> [inflight[s] EXCEPT !.withdrew = @ \cup S]]

TCall ==
  /\ IsEv("call") /\ Consume /\ pend[Cur.g].st = "idle"
  /\ pend' = [pend EXCEPT ![Cur.g] = [st |-> "called", line |-> l]]
  /\ CASE Cur.op = "Send" ->
            /\ inflight' = Put(inflight, Cur.g, [v |-> Cur.v, standing |-> estab, withdrew |-> {}])
            /\ sentVals' = sentVals \cup {Cur.v}
            /\ UNCHANGED <<madeAt, estab, active, sends, got, seen, unacked, rounds, strict, autos, wdEarly>>
       [] Cur.op = "Sub" ->
            /\ Cur.g \notin active
            /\ madeAt' = Put(madeAt, Cur.g, l) /\ active' = active \cup {Cur.g} /\ seen' = Put(seen, Cur.g, <<>>)
            /\ autos' = IF Cur.auto /\ ~Cur.dead THEN autos \cup {Cur.g} ELSE autos
            /\ wdEarly' = IF Cur.dead THEN wdEarly \cup {Cur.g} ELSE wdEarly \ {Cur.g}
            /\ UNCHANGED <<estab, inflight, sends, sentVals, got, unacked, rounds, strict>>
       [] Cur.op = "Unsub" ->
            /\ Withdraw({Cur.g})
            /\ UNCHANGED <<madeAt, active, sends, sentVals, got, seen, unacked, rounds, strict, autos, wdEarly>>
       [] OTHER -> UNCHANGED vars

\* the iterator of g is left early / the context of the subscribers listed is cancelled; subscriptions whose iterator
\* never runs (auto) are withdrawn by the library itself and are not expected to receive or to return from anything
TWd ==
  /\ IsEv("wd") /\ Consume
  /\ Withdraw({Cur.gs[i] : i \in 1..Len(Cur.gs)})
  /\ active' = active \ {Cur.auto[i] : i \in 1..Len(Cur.auto)}
  /\ autos' = autos \ {Cur.auto[i] : i \in 1..Len(Cur.auto)}
  /\ wdEarly' = wdEarly \cup {g \in {Cur.gs[i] : i \in 1..Len(Cur.gs)} : pend[g].st = "called" /\ TLog[pend[g].line].op = "Sub"}
  /\ UNCHANGED <<pend, madeAt, sends, sentVals, got, seen, unacked, rounds, strict>>

\* a manual subscriber is about to call Wait for the value it received
TAck ==
  /\ IsEv("ack") /\ Consume
  /\ unacked' = unacked \ {Cur.g}
  /\ UNCHANGED <<pend, madeAt, estab, active, inflight, sends, sentVals, got, seen, rounds, strict, autos, wdEarly>>

TRecv ==
  /\ IsEv("recv") /\ Consume
  /\ LET g == Cur.g v == Cur.v IN
     /\ g \in active                                    \* only a subscription that exists receives
     /\ v \in sentVals                                   \* a value that was sent, never an invented one
     /\ ~\E i \in 1..Len(seen[g]) : seen[g][i] = v       \* no subscription receives a message twice
     \* never a message whose Send had already returned when the subscription was made
     /\ v \in DOMAIN sends => sends[v].retLine > madeAt[g]
     \* manual subscribers log before acknowledging: the Send cannot have returned yet
     /\ (~Cur.iter) => v \notin DOMAIN sends
     \* one global order: what g sees is increasing in the order of first receipts
     /\ LET rs == IF Idx(rounds, v) = 0 THEN Append(rounds, v) ELSE rounds IN
        /\ rounds' = rs
        /\ \A i \in 1..Len(seen[g]) : Idx(rs, seen[g][i]) < Idx(rs, v)
        \* sends are serialised: (exact log order) a manual receipt always belongs to the newest round
        /\ (strict /\ ~Cur.iter) => Idx(rs, v) = Len(rs)
     /\ got' = Put(got, v, Get(got, v, {}) \cup {g})
     /\ seen' = Put(seen, g, Append(seen[g], v))
     /\ unacked' = IF Cur.iter THEN unacked ELSE unacked \cup {g}
  /\ UNCHANGED <<pend, madeAt, estab, active, inflight, sends, sentVals, strict, autos, wdEarly>>

TRet ==
  /\ IsEv("ret") /\ Consume
  /\ LET g == Cur.g IN
     /\ pend[g].st = "called" /\ TLog[pend[g].line].ret = l
     /\ Cur.r = "ok"                                          \* no call panics when the contract is obeyed
     /\ pend' = [pend EXCEPT ![g] = Idle]
     /\ CASE Cur.op = "Send" ->
               LET f == inflight[g] IN
               \* every manual subscriber that took this message has acknowledged it
               /\ Get(got, f.v, {}) \cap unacked = {}
               /\ sends' = Put(sends, f.v, [n |-> Cur.n, retLine |-> l, must |-> f.standing \ f.withdrew])
               /\ inflight' = [s \in DOMAIN inflight \ {g} |-> inflight[s]]
               /\ UNCHANGED <<madeAt, estab, active, sentVals, got, seen, unacked, rounds, strict, autos, wdEarly>>
          [] Cur.op = "Sub" ->
               /\ estab' = IF g \in wdEarly THEN estab ELSE estab \cup {g}
               /\ active' = IF g \in wdEarly /\ TLog[pend[g].line].auto THEN active \ {g} ELSE active
               /\ autos' = IF g \in wdEarly THEN autos \ {g} ELSE autos
               /\ UNCHANGED <<madeAt, inflight, sends, sentVals, got, seen, unacked, rounds, strict, wdEarly>>
          [] Cur.op = "Unsub" ->
               /\ active' = active \ {g}
               /\ UNCHANGED <<madeAt, estab, inflight, sends, sentVals, got, seen, unacked, rounds, strict, autos, wdEarly>>
          [] OTHER -> UNCHANGED vars

\* every completed send: the count it returned is the number of receipts of that very message, and every
\* subscription that stood from before its call until after its return is among the receivers
Settled == \A v \in DOMAIN sends :
  /\ sends[v].n = Cardinality(Get(got, v, {}))
  /\ sends[v].must \subseteq Get(got, v, {})

TQuiescent ==
  /\ IsEv("quiescent") /\ Consume
  \* exactly quiescent: nothing but subscribers waiting for a message may be pending
  \* (a subscription whose iterator is never run legitimately holds up a Send until its context is cancelled)
  /\ autos = {} => /\ \A g \in GS : pend[g].st # "idle" => TLog[pend[g].line].op = "RecvWait"
                    /\ DOMAIN inflight = {}
                    /\ Cur.subscribers = Cardinality(active)
  /\ Settled
  /\ ~Cur.broken
  /\ UNCHANGED <<vars, pend>>

TFinal ==
  /\ IsEv("final") /\ Consume
  /\ Settled
  /\ Cur.leaked = 0 /\ Cur.returned /\ ~Cur.broken /\ Cur.subscribers = 0
  /\ UNCHANGED <<vars, pend>>

\* an iterator that was never run is invoked late with a nil yield function: it panics (whether its context is still
\* live or not); the withdrawal it may perform is announced by a wd line before it
TLateNil == IsEv("latenil") /\ Consume /\ Cur.panicked /\ UNCHANGED <<vars, pend>>

TVNext == TReset \/ TCall \/ TRet \/ TWd \/ TAck \/ TRecv \/ TLateNil \/ TQuiescent \/ TFinal
TVSpec == TVInit /\ [][TVNext]_tvars
Mark ==
  /\ IF l - 1 > TLCGet(1) THEN TLCSet(1, l - 1) ELSE TRUE
  /\ IF l - 1 = NL THEN PrintT(<<"TVDONE", NL>>) /\ TLCSet("exit", TRUE) ELSE TRUE
Accepted == PrintT(<<"TVMARK", TLCGet(1), NL>>) /\ TLCGet(1) = NL
=============================================================================
