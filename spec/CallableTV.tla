------------------------------ MODULE CallableTV ------------------------------
(***************************************************************************)
(* C19.  The rules of bigbuff.Call / CallArgs / CallResults /              *)
(* CallResultsSlice over a finite universe of parameter types, argument    *)
(* values, result types and result targets, transcribed from the property  *)
(* statement and reflect's assignability rules (not from callable.go):     *)
(* either the function is invoked exactly once with exactly the given      *)
(* arguments (nil becoming the zero value of a nilable parameter) and the  *)
(* targets receive exactly its results, or an error is returned, the       *)
(* function is not invoked and no target is touched.  Never a panic.       *)
(* Every line of the trace is one case executed by the real code; TLC      *)
(* checks observed = Expected(case) line by line.                          *)
(***************************************************************************)
EXTENDS Integers, Sequences, FiniteSets, TLC, Json, IOUtils, TLCExt

TLog == ndJsonDeserialize(IOEnv.TRACE)
NL   == Len(TLog)

\* types: "int" "string" "pint" (*int) "any" (interface{}) "err" (error) "sint" ([]int) "nint" (type namedInt int)
\* argument value kinds: "i" int, "s" string, "p" non-nil *int, "pn" typed nil *int, "nil" untyped nil,
\*                       "e" a concrete error value, "sl" non-nil []int
Nilable(t) == t \in {"pint", "any", "err", "sint"}

Assignable(k, t) ==
  CASE k = "i"   -> t \in {"int", "any"}
    [] k = "s"   -> t \in {"string", "any"}
    [] k \in {"p", "pn"} -> t \in {"pint", "any"}
    [] k = "e"   -> t \in {"err", "any"}
    [] k = "sl"  -> t \in {"sint", "any"}
    [] k = "ni"  -> t \in {"nint", "any"}       \* a named int type: same kind as int, but neither is assignable to the other
    [] k = "nil" -> Nilable(t)
    [] OTHER -> FALSE

\* what the function receives for argument kind k passed to a parameter of type t
Received(k, t) ==
  IF k # "nil" THEN k
  ELSE CASE t = "pint" -> "pn" [] t = "sint" -> "sln" [] OTHER -> "nil"

\* parameter types after variadic expansion for n arguments (<<>> of wrong length when n is too small)
EffParams(params, variadic, n) ==
  IF ~variadic THEN params
  ELSE LET f == Len(params) - 1 IN
       IF n >= f THEN [i \in 1..n |-> IF i <= f THEN params[i] ELSE params[Len(params)]]
       ELSE SubSeq(params, 1, f)

ArgsOK(params, variadic, args) ==
  LET eff == EffParams(params, variadic, Len(args)) IN
  /\ Len(eff) = Len(args)
  /\ \A i \in 1..Len(args) : Assignable(args[i], eff[i])

GotFor(params, variadic, args) ==
  LET eff == EffParams(params, variadic, Len(args)) IN [i \in 1..Len(args) |-> Received(args[i], eff[i])]

\* result targets: "ok" pointer to the result type, "okany" *interface{}, "okpre" / "okanypre" the same but already holding
\* a value (every result is stored, nil results included: a stale value must not survive), "wrong" pointer to an
\* unrelated type, "nilptr" typed nil pointer, "nonptr" not a pointer, "unil" untyped nil
TargetsOK(results, targets) ==
  /\ Len(targets) = Len(results)
  /\ \A i \in 1..Len(targets) : targets[i] \in {"ok", "okany", "okpre", "okanypre"}

\* slice targets: "sany" *[]interface{}, "sint" *[]int, "nilp" nil pointer, "nonptr", "notslice" *int, "unil"
\* ("sfloat" *[]float64, "sstring" *[]string: assignability decides, not convertibility - an int converts to both)
SliceOK(results, sk) ==
  \/ sk = "sany"
  \/ sk = "sint" /\ \A i \in 1..Len(results) : results[i] = "int"
  \/ sk = "sstring" /\ \A i \in 1..Len(results) : results[i] = "string"
  \/ sk = "sfloat" /\ results = <<>>

UntouchedOK(s) == \A i \in 1..Len(s) : s[i] \in {"untouched", "na", "zero", "stale"}
StoredOK(s)    == \A i \in 1..Len(s) : s[i] \in {"set", "zero"}

CheckA(c) ==
  IF ArgsOK(c.params, c.variadic, c.args)
    THEN c.out = "ok" /\ c.invoked = 1 /\ c.got = GotFor(c.params, c.variadic, c.args)
    ELSE c.out = "err" /\ c.invoked = 0

CheckB(c) ==
  IF TargetsOK(c.results, c.targets)
    THEN c.out = "ok" /\ c.invoked = 1 /\ StoredOK(c.stored)
    ELSE c.out = "err" /\ c.invoked = 0 /\ UntouchedOK(c.stored)

CheckS(c) ==
  IF SliceOK(c.results, c.starget)
    THEN c.out = "ok" /\ c.invoked = 1 /\ c.appended = Len(c.results)
    ELSE c.out = "err" /\ c.invoked = 0 /\ c.appended \in {0, -1}

CheckC(c) ==
  IF ArgsOK(c.params, c.variadic, c.args) /\ TargetsOK(c.results, c.targets)
    THEN c.out = "ok" /\ c.invoked = 1 /\ c.got = GotFor(c.params, c.variadic, c.args) /\ StoredOK(c.stored)
    ELSE c.out = "err" /\ c.invoked = 0 /\ UntouchedOK(c.stored)

VARIABLE l
TVInit == l = 1 /\ TLCSet(1, 0) /\ TLCSet(2, 0)
Cur == TLog[l]
CaseOK == CASE Cur.u = "A" -> CheckA(Cur) [] Cur.u = "B" -> CheckB(Cur) [] Cur.u = "S" -> CheckS(Cur) [] Cur.u = "C" -> CheckC(Cur)
\* every case is checked; the failing ones are reported (TVBAD) and counted in register 2
TCase ==
  /\ l <= NL /\ Cur.ev = "case"
  /\ IF CaseOK THEN TRUE ELSE PrintT(<<"TVBAD", l>>) /\ TLCSet(2, TLCGet(2) + 1)
  /\ l' = l + 1
TVNext == TCase
TVSpec == TVInit /\ [][TVNext]_l
Mark ==
  /\ IF l - 1 > TLCGet(1) THEN TLCSet(1, l - 1) ELSE TRUE
  /\ IF l - 1 = NL THEN PrintT(<<"TVDONE", NL>>) /\ TLCSet("exit", TRUE) ELSE TRUE
Accepted == PrintT(<<"TVMARK", TLCGet(1), NL>>) /\ PrintT(<<"TVBADCOUNT", TLCGet(2)>>) /\ TLCGet(1) = NL /\ TLCGet(2) = 0
=============================================================================
