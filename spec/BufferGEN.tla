------------------------------ MODULE BufferGEN ------------------------------
(***************************************************************************)
(* Behaviour generator (specification -> implementation) for the Buffer:   *)
(* every sequence of Depth calls by one caller that BufferL1 lets complete *)
(* (a Get only when it would not block, a Close only when nothing is       *)
(* uncommitted), for each cleaner configuration, with the background       *)
(* cleaner and the library's own close steps as unlabelled steps.  The     *)
(* harness replays each sequence against the real Buffer under the         *)
(* controlled scheduler; the trace is validated against BufferL1.          *)
(***************************************************************************)
EXTENDS BufferL1, Json

CONSTANTS Depth, MaxLog,
          GFixed, GMax, GTarget     \* the cleaner configuration of this run (FixedBufferCleaner(GMax, GTarget) if GFixed)
VARIABLE hist
gvars == <<vars, hist>>

Op(k, c, n) == hist' = Append(hist, [k |-> k, c |-> c, n |-> n])
Vals(n) == [i \in 1..n |-> Len(log) + i]
G == "g"

GetNow(c) ==   \* Get as one step: acquire the consumer mutex and complete
  /\ cmu[c] = NoG /\ cst[c] # "absent"
  /\ \E r \in {"ok", "past", "canceled"} :
       /\ (r = "ok" => Available(c)) /\ (r = "past" => Past(c) /\ ~bclosed)
       /\ (r = "canceled" => cst[c] # "open" \/ bclosed)
       /\ LET v == IF r = "ok" THEN log[Pos(c) + 1] ELSE 0 IN
          /\ delta' = IF r = "ok" THEN [delta EXCEPT ![c] = @ + 1] ELSE delta
          /\ stream' = IF r = "ok" THEN [stream EXCEPT ![c] = StreamAfterGet(c, v)] ELSE stream
  /\ UNCHANGED <<log, base, reg, committed, cst, once, closer, cmu, bclosed, bonce, bcloser, bdone, cleaner, start>>

CloseNow(c) ==  \* consumer.Close when nothing is uncommitted: completes at once
  /\ cst[c] \in {"open", "closing"} /\ ~once[c] /\ delta[c] = 0 /\ cmu[c] = NoG
  /\ once' = [once EXCEPT ![c] = TRUE] /\ closer' = [closer EXCEPT ![c] = G]
  /\ cst' = [cst EXCEPT ![c] = "closed"] /\ reg' = reg \ {c}
  /\ UNCHANGED <<log, base, committed, delta, cmu, bclosed, bonce, bcloser, bdone, cleaner, hvars>>

BCloseNow ==    \* Buffer.Close when no consumer holds uncommitted reads: completes (consumers are closed by the library)
  /\ ~bonce /\ \A c \in Cons : delta[c] = 0 /\ cmu[c] = NoG
  /\ bonce' = TRUE /\ bcloser' = G /\ bclosed' = TRUE /\ bdone' = TRUE
  /\ cst' = [c \in Cons |-> IF cst[c] \in {"open", "closing"} THEN "closed" ELSE cst[c]]
  /\ once' = [c \in Cons |-> IF cst[c] \in {"open", "closing"} THEN TRUE ELSE once[c]]
  /\ reg' = {}
  /\ UNCHANGED <<log, base, committed, delta, closer, cmu, cleaner, hvars>>

GNext ==
  \/ /\ Len(hist) < Depth + 1
     /\ \/ \E n \in 0..2 : Len(log) + n <= MaxLog /\ \E r \in {"ok", "canceled"} : Put(Vals(n), "live", r) /\ Op("put", 0, n)
        \/ \E c \in Cons : cst[c] = "absent" /\ (\A d \in Cons : d < c => cst[d] # "absent") /\
                           \E r \in {"ok", "canceled"} : NewConsumer(c, r) /\ Op("newc", c, 0)
        \/ \E c \in Cons : GetNow(c) /\ Op("get", c, 0)
        \/ \E c \in Cons : cst[c] # "absent" /\ \E r \in {"ok", "nothing", "unknown"} : Commit(c, r) /\ Op("commit", c, 0)
        \/ \E c \in Cons : cst[c] # "absent" /\ \E r \in {"ok", "nothing"} : Rollback(c, r) /\ Op("rollback", c, 0)
        \/ \E c \in Cons : CloseNow(c) /\ Op("close", c, 0)
        \/ \E c \in Cons : CloseAgain(c, "once") /\ Op("close", c, 0)
        \/ BCloseNow /\ Op("bclose", 0, 0)
        \/ BCloseAgain("once") /\ Op("bclose", 0, 0)
        \/ SizeObs(Size) /\ Op("size", 0, 0)
        \/ \E c \in Cons : cst[c] # "absent" /\ cmu[c] = NoG /\ UNCHANGED vars /\ Op("diff", c, 0)
  \/ Clean /\ UNCHANGED hist

GCleaner == IF GFixed THEN [kind |-> "fixed", max |-> GMax, target |-> GTarget] ELSE [kind |-> "default"]
GInit ==
  /\ log = <<>> /\ base = 0 /\ reg = {}
  /\ committed = [c \in Cons |-> 0] /\ delta = [c \in Cons |-> 0]
  /\ cst = [c \in Cons |-> "absent"] /\ once = [c \in Cons |-> FALSE]
  /\ closer = [c \in Cons |-> NoG] /\ cmu = [c \in Cons |-> NoG]
  /\ bclosed = FALSE /\ bonce = FALSE /\ bcloser = NoG /\ bdone = FALSE
  /\ cleaner = GCleaner
  /\ start = [c \in Cons |-> 0] /\ stream = [c \in Cons |-> <<>>]
  \* the first element of every behaviour tells the harness which cleaner to configure
  /\ hist = <<[k |-> "cleaner", c |-> IF GFixed THEN GMax ELSE -1, n |-> GTarget]>>
GSpec == GInit /\ [][GNext]_gvars
GenOut == Len(hist) < Depth + 1 \/ PrintT(<<"GEN", ToJson(hist)>>)
=============================================================================
