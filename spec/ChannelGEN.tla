------------------------------ MODULE ChannelGEN ------------------------------
(***************************************************************************)
(* Behaviour generator for the specification -> implementation direction:  *)
(* TLC enumerates (breadth-first, so exhaustively) every sequence of calls *)
(* of length Depth that ChannelL1 allows for one caller, with a history    *)
(* variable; each complete sequence is printed as JSON ("GEN" lines) and   *)
(* replayed by the harness against the real Channel, one call at a time,   *)
(* under the controlled scheduler; the recorded trace is validated against *)
(* ChannelL1 as usual.  A call the model completes but the real code       *)
(* blocks on shows up as a stuck call at an exactly quiescent point.       *)
(***************************************************************************)
EXTENDS ChannelL1, Json

CONSTANTS MaxSrc, Depth
VARIABLE hist
gvars == <<vars, hist>>

Sent == Len(taken) + Len(src)
Op(k) == hist' = Append(hist, [k |-> k])

CloseAtomic(g) ==
  /\ ~once
  /\ once' = TRUE /\ closer' = g /\ cancelled' = TRUE /\ done' = TRUE
  /\ UNCHANGED <<src, srcClosed, buf, rb, taken, commits>>

GNext ==
  /\ Len(hist) < Depth
  /\ \/ Sent < MaxSrc /\ SrcSend(Sent + 1) /\ Op("send")
     \/ SrcClose /\ Op("srcclose")
     \/ ParentCancel /\ Op("pcancel")
     \/ \E r \in {"ok", "canceled"}, v \in 0..MaxSrc : Get("live", r, v) /\ Op("get")
     \/ Get("pre", "canceled", 0) /\ Op("getpre")
     \/ \E r \in {"ok", "nothing", "canceled"} : Commit(r) /\ Op("commit")
     \/ \E r \in {"ok", "nothing"} : Rollback(r) /\ Op("rollback")
     \/ BufferObs(buf) /\ Op("buffer")
     \/ CloseAtomic("a") /\ Op("close")
     \/ done /\ CloseAgain("once") /\ Op("close")
     \* the library's own watcher closes the Channel after its parent context was cancelled (no call of the program)
     \/ cancelled /\ ~once /\ CloseAtomic("sys") /\ UNCHANGED hist

GSpec == Init /\ hist = <<>> /\ [][GNext]_gvars

\* always true; prints every complete call sequence once it has reached the requested length
GenOut == Len(hist) < Depth \/ PrintT(<<"GEN", ToJson(hist)>>)
=============================================================================
