SPECIFICATION Spec
CONSTANTS
  Calls = {1, 2, 3, 4}
  CountOf <- MCCountOf
  MaxWorkers = 3
  ExitCmp = ">="
INVARIANTS TypeOK Bound ExactlyOnce QueueServed
PROPERTIES WaitMeansIdle NoStarvation
CHECK_DEADLOCK FALSE
