------------------------------ MODULE ChannelMC ------------------------------
EXTENDS ChannelL1
CONSTANTS MaxSrc, Callers

\* the original stream is 1, 2, 3, ...: the next value to send is one more than everything sent so far
Sent == Len(taken) + Len(src)

MCNext ==
  \/ Sent < MaxSrc /\ SrcSend(Sent + 1)
  \/ SrcClose \/ ParentCancel
  \/ \E cx \in {"live", "pre", "now"}, r \in {"ok", "canceled"}, v \in 0..MaxSrc : Get(cx, r, v)
  \/ \E r \in {"ok", "nothing", "canceled"} : Commit(r)
  \/ \E r \in {"ok", "nothing"} : Rollback(r)
  \/ \E g \in Callers \cup {"sys"} : CloseBegin(g)
  \/ CloseFinish

MCSpec == Init /\ [][MCNext]_vars

\* the stream taken is a prefix of 1,2,3,... and what is left in the source continues it
StreamIntact == taken \o src = [i \in 1..Sent |-> i]
=============================================================================
