------------------------------ MODULE ExclusiveL2 ------------------------------
(***************************************************************************)
(* bigbuff.Exclusive at the granularity of its critical sections (C09,     *)
(* C10).  A call finds or creates the item of its key under the map mutex, *)
(* locks the item's mutex, re-validates under the map mutex that the item  *)
(* is still the one in the map (attaching its function and counting itself *)
(* in), and hands the locked item mutex to a goroutine.  That goroutine    *)
(* waits until the item is not running; if the item is complete it takes   *)
(* the item's outcome; otherwise it becomes the runner: it installs a      *)
(* successor item (already marked running, sharing the mutex), runs the    *)
(* attached function outside all locks, stores the outcome (resolve) and,  *)
(* only after the function has returned, clears the successor's running    *)
(* flag, deleting the key if nobody attached to the successor.             *)
(* SuccRunning = FALSE models the mistake of not marking the successor.    *)
(***************************************************************************)
EXTENDS Integers, Sequences, FiniteSets, TLC

CONSTANTS Callers, KeyOf,      \* KeyOf: [Callers -> key]
          MaxItems, SuccRunning

Keys == {KeyOf[c] : c \in Callers}
Items == 1..MaxItems

VARIABLES
  emu,      \* holder of the map mutex (0 = free)
  map,      \* [Keys -> item id or 0]
  imu,      \* [Keys -> holder of the (per key chain) item mutex, 0 = free]
  irunning, icomplete, icount, iwork, iresult,   \* item fields, indexed by item id
  nitems,   \* items allocated so far
  pc,       \* [Callers -> program counter]
  item,     \* [Callers -> item the caller is working with]
  nxt,      \* [Callers -> successor item installed by the runner]
  waiting,  \* set of callers parked in cond.Wait (per key chain cond)
  execs,    \* sequence of executions: [runner, key, fn, callsBefore]
  cur,      \* [Keys -> index in execs of the execution whose function is running, 0 = none]
  outcome,  \* [Callers -> index in execs of the execution that answered, 0 = none yet]
  made      \* [Callers -> number of executions that existed when the call was made]

vars == <<emu, map, imu, irunning, icomplete, icount, iwork, iresult, nitems, pc, item, nxt, waiting, execs, cur, outcome, made>>

Init ==
  /\ emu = 0 /\ map = [k \in Keys |-> 0] /\ imu = [k \in Keys |-> 0]
  /\ irunning = [i \in Items |-> FALSE] /\ icomplete = [i \in Items |-> FALSE] /\ icount = [i \in Items |-> 0]
  /\ iwork = [i \in Items |-> 0] /\ iresult = [i \in Items |-> 0]
  /\ nitems = 0
  /\ pc = [c \in Callers |-> "idle"] /\ item = [c \in Callers |-> 0] /\ nxt = [c \in Callers |-> 0]
  /\ waiting = {} /\ execs = <<>> /\ cur = [k \in Keys |-> 0]
  /\ outcome = [c \in Callers |-> 0] /\ made = [c \in Callers |-> 0]

K(c) == KeyOf[c]

\* the call is made
Begin(c) ==
  /\ pc[c] = "idle"
  /\ made' = [made EXCEPT ![c] = Len(execs)]
  /\ pc' = [pc EXCEPT ![c] = "find"]
  /\ UNCHANGED <<emu, map, imu, irunning, icomplete, icount, iwork, iresult, nitems, item, nxt, waiting, execs, cur, outcome>>

\* critical section 1 (map mutex): find or create the item
Find(c) ==
  /\ pc[c] = "find" /\ emu = 0
  /\ IF map[K(c)] = 0
       THEN /\ nitems < MaxItems
            /\ nitems' = nitems + 1
            /\ map' = [map EXCEPT ![K(c)] = nitems + 1]
            /\ item' = [item EXCEPT ![c] = nitems + 1]
       ELSE /\ item' = [item EXCEPT ![c] = map[K(c)]]
            /\ UNCHANGED <<nitems, map>>
  /\ pc' = [pc EXCEPT ![c] = "ilock"]
  /\ UNCHANGED <<emu, imu, irunning, icomplete, icount, iwork, iresult, nxt, waiting, execs, cur, outcome, made>>

ILock(c) ==
  /\ pc[c] = "ilock" /\ imu[K(c)] = 0
  /\ imu' = [imu EXCEPT ![K(c)] = c]
  /\ pc' = [pc EXCEPT ![c] = "validate"]
  /\ UNCHANGED <<emu, map, irunning, icomplete, icount, iwork, iresult, nitems, item, nxt, waiting, execs, cur, outcome, made>>

\* critical section 2 (item mutex held, map mutex): still the item in the map?  attach : retry
Validate(c) ==
  /\ pc[c] = "validate" /\ emu = 0
  /\ IF map[K(c)] = item[c]
       THEN /\ iwork' = [iwork EXCEPT ![item[c]] = c]
            /\ icount' = [icount EXCEPT ![item[c]] = @ + 1]
            /\ pc' = [pc EXCEPT ![c] = "rwait"]           \* the spawned goroutine continues, still holding the item mutex
            /\ UNCHANGED imu
       ELSE /\ imu' = [imu EXCEPT ![K(c)] = 0]
            /\ pc' = [pc EXCEPT ![c] = "find"]
            /\ UNCHANGED <<iwork, icount>>
  /\ UNCHANGED <<emu, map, irunning, icomplete, iresult, nitems, item, nxt, waiting, execs, cur, outcome, made>>

\* goroutine: for item.running { cond.Wait() }
RWaitPark(c) ==
  /\ pc[c] = "rwait" /\ imu[K(c)] = c /\ irunning[item[c]]
  /\ imu' = [imu EXCEPT ![K(c)] = 0]
  /\ waiting' = waiting \cup {c}
  /\ pc' = [pc EXCEPT ![c] = "parked"]
  /\ UNCHANGED <<emu, map, irunning, icomplete, icount, iwork, iresult, nitems, item, nxt, execs, cur, outcome, made>>

RWake(c) ==
  /\ pc[c] = "parked" /\ c \notin waiting /\ imu[K(c)] = 0
  /\ imu' = [imu EXCEPT ![K(c)] = c]
  /\ pc' = [pc EXCEPT ![c] = "rwait"]
  /\ UNCHANGED <<emu, map, irunning, icomplete, icount, iwork, iresult, nitems, item, nxt, waiting, execs, cur, outcome, made>>

\* not running and complete: take the item's outcome
RTake(c) ==
  /\ pc[c] = "rwait" /\ imu[K(c)] = c /\ ~irunning[item[c]] /\ icomplete[item[c]]
  /\ outcome' = [outcome EXCEPT ![c] = iresult[item[c]]]
  /\ imu' = [imu EXCEPT ![K(c)] = 0]
  /\ pc' = [pc EXCEPT ![c] = "done"]
  /\ UNCHANGED <<emu, map, irunning, icomplete, icount, iwork, iresult, nitems, item, nxt, waiting, execs, cur, made>>

\* not running and not complete: become the runner; install the successor (map mutex); release the item mutex
RBecome(c) ==
  /\ pc[c] = "rwait" /\ imu[K(c)] = c /\ ~irunning[item[c]] /\ ~icomplete[item[c]]
  /\ emu = 0 /\ nitems < MaxItems
  /\ irunning' = [irunning EXCEPT ![item[c]] = TRUE, ![nitems + 1] = SuccRunning]
  /\ nitems' = nitems + 1
  /\ map' = [map EXCEPT ![K(c)] = nitems + 1]
  /\ nxt' = [nxt EXCEPT ![c] = nitems + 1]
  /\ imu' = [imu EXCEPT ![K(c)] = 0]
  /\ pc' = [pc EXCEPT ![c] = "work"]
  /\ UNCHANGED <<emu, icomplete, icount, iwork, iresult, item, waiting, execs, cur, outcome, made>>

\* the attached work function starts (outside all locks)
WorkStart(c) ==
  /\ pc[c] = "work"
  /\ execs' = Append(execs, [runner |-> c, key |-> K(c), fn |-> iwork[item[c]]])
  /\ cur' = [cur EXCEPT ![K(c)] = Len(execs) + 1]
  /\ pc' = [pc EXCEPT ![c] = "resolve"]
  /\ UNCHANGED <<emu, map, imu, irunning, icomplete, icount, iwork, iresult, nitems, item, nxt, waiting, outcome, made>>

\* resolve: the runner's own caller is answered, then (item mutex) the outcome is stored and waiters are woken
Resolve(c) ==
  /\ pc[c] = "resolve" /\ imu[K(c)] = 0
  /\ LET e == CHOOSE i \in 1..Len(execs) : execs[i].runner = c IN
     /\ outcome' = [outcome EXCEPT ![c] = e]
     /\ iresult' = [iresult EXCEPT ![item[c]] = e]
  /\ icomplete' = [icomplete EXCEPT ![item[c]] = TRUE]
  /\ irunning' = [irunning EXCEPT ![item[c]] = FALSE]
  /\ waiting' = {w \in waiting : K(w) # K(c)}          \* broadcast on the chain's cond
  /\ pc' = [pc EXCEPT ![c] = "return"]
  /\ UNCHANGED <<emu, map, imu, icount, iwork, nitems, item, nxt, execs, cur, made>>

\* the work function returns
WorkReturn(c) ==
  /\ pc[c] = "return"
  /\ cur' = [cur EXCEPT ![K(c)] = 0]
  /\ pc' = [pc EXCEPT ![c] = "release"]
  /\ UNCHANGED <<emu, map, imu, irunning, icomplete, icount, iwork, iresult, nitems, item, nxt, waiting, execs, outcome, made>>

\* only now the successor stops being "running"; the key is deleted if nobody attached to it
Release(c) ==
  /\ pc[c] = "release" /\ imu[K(c)] = 0 /\ emu = 0
  /\ irunning' = [irunning EXCEPT ![nxt[c]] = FALSE]
  /\ map' = IF icount[nxt[c]] = 0 /\ map[K(c)] = nxt[c] THEN [map EXCEPT ![K(c)] = 0]
            ELSE IF icount[nxt[c]] = 0 THEN [map EXCEPT ![K(c)] = 0] ELSE map
  /\ waiting' = {w \in waiting : K(w) # K(c)}
  /\ pc' = [pc EXCEPT ![c] = "done"]
  /\ UNCHANGED <<emu, imu, icomplete, icount, iwork, iresult, nitems, item, nxt, execs, cur, outcome, made>>

Next == \E c \in Callers :
  \/ Begin(c) \/ Find(c) \/ ILock(c) \/ Validate(c) \/ RWaitPark(c) \/ RWake(c) \/ RTake(c) \/ RBecome(c)
  \/ WorkStart(c) \/ Resolve(c) \/ WorkReturn(c) \/ Release(c)

Spec == Init /\ [][Next]_vars /\ \A c \in Callers : WF_vars(Find(c) \/ ILock(c) \/ Validate(c) \/ RWaitPark(c) \/ RWake(c) \/ RTake(c) \/ RBecome(c) \/ WorkStart(c) \/ Resolve(c) \/ WorkReturn(c) \/ Release(c))

-----------------------------------------------------------------------------
\* C09: at most one work function per key at a time (a new execution starts only when none of its key is running)
NoOverlap == [][\A k \in Keys : (cur'[k] # cur[k] /\ cur'[k] # 0) => cur[k] = 0]_vars
\* C10: a call is answered by an execution of its key that began after the call was made, running a function that a call supplied
AnsweredByLater == \A c \in Callers : outcome[c] # 0 =>
   /\ execs[outcome[c]].key = K(c)
   /\ outcome[c] > made[c]
\* C10: executions never outnumber calls
ExecsLeCalls == Len(execs) <= Cardinality({c \in Callers : pc[c] # "idle"})
\* C10: when everything has finished no per-key state remains
CleanAtEnd == (\A c \in Callers : pc[c] = "done") => (\A k \in Keys : map[k] = 0)
\* C10 (liveness): every call is answered
Answered == \A c \in Callers : (pc[c] # "idle") ~> (outcome[c] # 0)
\* C09: keys are independent: two keys can be running at once (reachability witness: this "invariant" must be VIOLATED)
NeverTwoKeysRunning == Cardinality({k \in Keys : cur[k] # 0}) <= 1
MCKeyOf == (1 :> "a") @@ (2 :> "a") @@ (3 :> "b")
MCKeyOf4 == (1 :> "a") @@ (2 :> "a") @@ (3 :> "a") @@ (4 :> "b")
=============================================================================
