SPECIFICATION MCSpec
CONSTANTS
  Cons = {1, 2}
  NoG = 0
  Procs = {11, 12}
  MaxLog = 3
  MaxBatch = 2
  Cleaners <- MCCleaners
INVARIANTS TypeOK FIFO ReadPositionInStream FixedBound Reclaimed PastIsLoud ClosedMeansClosed
PROPERTIES Retention NoEvictionWithoutConsumers AppendOnly TxnStep CloseKeepsContents
CHECK_DEADLOCK FALSE
