------------------------------ MODULE ChannelL2 ------------------------------
(***************************************************************************)
(* L2 specification of bigbuff.Channel.Get against the two ways in which   *)
(* the Channel stops: cancellation of the PARENT context (needs no lock)   *)
(* and Close (once.Do { lock; cancel; close(done); unlock }), the latter   *)
(* also called by the library's watcher goroutine once the context is      *)
(* cancelled.  ChannelL1 treats every call as atomic; here the critical    *)
(* section of Get is three steps - lock, check of the Channel's context,   *)
(* receive from the source - as in channel.go (hook points                 *)
(* channel.get.lock / .locked / .checked / .tried).  What C13 promises is  *)
(* about Done(): "once Done is closed nothing more is taken from the       *)
(* source".  That holds (NothingTakenAfterDone); the stronger statement    *)
(* of ChannelL1, nothing taken once the context is cancelled, does not     *)
(* (ChannelL2_neg.cfg is the negative control: TLC must find the Get that  *)
(* passed its check before the parent was cancelled) - which is why        *)
(* ChannelTV carries the deviation LinLateTake.                            *)
(***************************************************************************)
EXTENDS Integers, Sequences, FiniteSets, TLC

CONSTANTS Getters, MaxSrc

VARIABLES
  src,        \* values in the source channel
  sent,       \* number of values ever sent
  buf,        \* values taken (pending buffer; Commit / Rollback are not modelled here)
  ctxDone,    \* the Channel's context is cancelled
  once,       \* Close's once has been taken
  done,       \* Done() is closed
  mu,         \* holder of the Channel's mutex ("" = free)
  pc,         \* [getter -> "idle" | "lock" | "check" | "recv" | "wait" | "ret"]
  res,        \* [getter -> 0 (nothing yet) | value | -1 (cancelled)]
  closer,     \* "" | "lock" | "cs" | "ret" : the goroutine inside Close (a caller or the watcher)
  takenAfterCancel, takenAfterDone   \* history: a value was taken while ctxDone / done

vars == <<src, sent, buf, ctxDone, once, done, mu, pc, res, closer, takenAfterCancel, takenAfterDone>>

Init ==
  /\ src = <<>> /\ sent = 0 /\ buf = <<>> /\ ctxDone = FALSE /\ once = FALSE /\ done = FALSE /\ mu = ""
  /\ pc = [g \in Getters |-> "idle"] /\ res = [g \in Getters |-> 0] /\ closer = ""
  /\ takenAfterCancel = FALSE /\ takenAfterDone = FALSE

\* environment
SrcSend == sent < MaxSrc /\ sent' = sent + 1 /\ src' = Append(src, sent + 1)
           /\ UNCHANGED <<buf, ctxDone, once, done, mu, pc, res, closer, takenAfterCancel, takenAfterDone>>
ParentCancel == ~ctxDone /\ ctxDone' = TRUE
           /\ UNCHANGED <<src, sent, buf, once, done, mu, pc, res, closer, takenAfterCancel, takenAfterDone>>

\* Get (the caller's own context is not modelled: it is checked outside the lock and takes nothing)
GetCall(g) == pc[g] = "idle" /\ pc' = [pc EXCEPT ![g] = "lock"] /\ UNCHANGED <<src, sent, buf, ctxDone, once, done, mu, res, closer, takenAfterCancel, takenAfterDone>>
GetLock(g) == pc[g] = "lock" /\ mu = "" /\ mu' = g /\ pc' = [pc EXCEPT ![g] = "check"]
              /\ UNCHANGED <<src, sent, buf, ctxDone, once, done, res, closer, takenAfterCancel, takenAfterDone>>
GetCheck(g) ==
  /\ pc[g] = "check"
  /\ IF ctxDone THEN /\ mu' = "" /\ pc' = [pc EXCEPT ![g] = "ret"] /\ res' = [res EXCEPT ![g] = -1]
                ELSE /\ pc' = [pc EXCEPT ![g] = "recv"] /\ UNCHANGED <<mu, res>>
  /\ UNCHANGED <<src, sent, buf, ctxDone, once, done, closer, takenAfterCancel, takenAfterDone>>
GetRecv(g) ==
  /\ pc[g] = "recv" /\ mu' = ""
  /\ IF src # <<>>
       THEN /\ src' = Tail(src) /\ buf' = Append(buf, Head(src))
            /\ res' = [res EXCEPT ![g] = Head(src)] /\ pc' = [pc EXCEPT ![g] = "ret"]
            /\ takenAfterCancel' = (takenAfterCancel \/ ctxDone)
            /\ takenAfterDone' = (takenAfterDone \/ done)
       ELSE /\ pc' = [pc EXCEPT ![g] = "wait"]     \* nothing there: unlock and poll again after a tick (or the cancel)
            /\ UNCHANGED <<src, buf, res, takenAfterCancel, takenAfterDone>>
  /\ UNCHANGED <<sent, ctxDone, once, done, closer>>
GetTick(g) == pc[g] = "wait" /\ pc' = [pc EXCEPT ![g] = "lock"]
              /\ UNCHANGED <<src, sent, buf, ctxDone, once, done, mu, res, closer, takenAfterCancel, takenAfterDone>>

\* Close: by a caller at any time, by the watcher once the context is cancelled; the once admits one of them
CloseBegin == ~once /\ closer = "" /\ once' = TRUE /\ closer' = "lock"
              /\ UNCHANGED <<src, sent, buf, ctxDone, done, mu, pc, res, takenAfterCancel, takenAfterDone>>
CloseLock  == closer = "lock" /\ mu = "" /\ mu' = "closer" /\ closer' = "cs"
              /\ UNCHANGED <<src, sent, buf, ctxDone, once, done, pc, res, takenAfterCancel, takenAfterDone>>
CloseCS    == closer = "cs" /\ ctxDone' = TRUE /\ done' = TRUE /\ mu' = "" /\ closer' = "ret"
              /\ UNCHANGED <<src, sent, buf, once, pc, res, takenAfterCancel, takenAfterDone>>

Next ==
  \/ SrcSend \/ ParentCancel \/ CloseBegin \/ CloseLock \/ CloseCS
  \/ \E g \in Getters : GetCall(g) \/ GetLock(g) \/ GetCheck(g) \/ GetRecv(g) \/ GetTick(g)

Fairness == /\ WF_vars(CloseLock) /\ WF_vars(CloseCS)
            /\ WF_vars(ctxDone /\ CloseBegin)                     \* the watcher goroutine
            /\ \A g \in Getters : WF_vars(GetLock(g)) /\ WF_vars(GetCheck(g)) /\ WF_vars(GetRecv(g)) /\ WF_vars(GetTick(g))
Spec == Init /\ [][Next]_vars /\ Fairness

-----------------------------------------------------------------------------
TypeOK ==
  /\ mu \in Getters \cup {"", "closer"}
  /\ \A g \in Getters : pc[g] \in {"idle", "lock", "check", "recv", "wait", "ret"}
  /\ (mu \in Getters) => pc[mu] \in {"check", "recv"}
  /\ done => ctxDone

\* C13: once Done is closed nothing more is taken from the source
NothingTakenAfterDone == ~takenAfterDone

\* C13: the values taken are the stream's prefix, in order; what is left continues it
StreamIntact == buf \o src = [i \in 1..sent |-> i]

\* at most one Get is inside the critical section, and never together with Close
MutexOK == Cardinality({g \in Getters : pc[g] \in {"check", "recv"}}) + (IF closer = "cs" THEN 1 ELSE 0) <= 1

\* the stronger statement of ChannelL1 - FALSE here (negative control, ChannelL2_neg.cfg)
NothingTakenAfterCancel == ~takenAfterCancel

\* C12 / C13: once the context is cancelled Done() is eventually closed, and every Get in flight returns
DoneFollowsCancel == ctxDone ~> done
GetsReturnAfterCancel == \A g \in Getters : (ctxDone /\ pc[g] # "idle") ~> (pc[g] = "ret")
=============================================================================
