------------------------------ MODULE BufferMC ------------------------------
(* Exhaustive model of BufferL1 for small constants: any caller may issue any call at any time. *)
EXTENDS BufferL1

CONSTANTS Procs, MaxLog, MaxBatch, Cleaners

VARIABLE holding   \* [Procs -> consumer whose mutex the caller holds inside a blocked Get, or 0]

mcvars == <<vars, holding>>

MCInit == Init /\ holding = [p \in Procs |-> 0]

Idle(p) == holding[p] = 0

NextVals(n) == [i \in 1..n |-> Len(log) + i]      \* distinguishable values: their position in the put order

MCNext ==
  \/ \E p \in Procs :
       \/ /\ Idle(p) /\ UNCHANGED holding
          /\ \/ \E n \in 0..MaxBatch, cx \in CX, r \in {"ok", "canceled"} :
                  Len(log) + n <= MaxLog /\ Put(NextVals(n), cx, r)
             \/ \E c \in Cons, r \in {"ok", "canceled"} : NewConsumer(c, r)
             \/ \E c \in Cons, cx \in CX : cst[c] # "absent" /\ GetQuick(c, cx, "canceled")
             \/ \E c \in Cons, r \in {"ok", "nothing", "unknown"} : cst[c] # "absent" /\ Commit(c, r)
             \/ \E c \in Cons, r \in {"ok", "nothing"} : cst[c] # "absent" /\ Rollback(c, r)
             \/ \E c \in Cons : CloseBegin(p, c)
             \/ BCloseBegin(p)
             \/ \E cl \in Cleaners : cl # cleaner /\ SetCleaner(cl)
       \/ \E c \in Cons :
            /\ Idle(p) /\ cst[c] # "absent" /\ GetAcquire(p, c)
            /\ holding' = [holding EXCEPT ![p] = c]
       \/ \E c \in Cons, cx \in CX, r \in {"ok", "past", "canceled"} :
            /\ holding[p] = c
            /\ \E v \in 1..MaxLog : GetDone(p, c, cx, r, v)
            /\ holding' = [holding EXCEPT ![p] = 0]
  \/ /\ UNCHANGED holding
     /\ \/ \E c \in Cons : CloseBegin(NoG, c) \/ CloseCancel(c) \/ CloseFinish(c)
        \/ BCloseCancel \/ BCloseFinish
        \/ Clean

MCSpec == MCInit /\ [][MCNext]_mcvars

\* C03: a consumer whose next value has been evicted gets an error from every Get (never a value)
PastIsLoud == \A c \in Cons : Past(c) => ~Available(c)

\* C02 as action property: a Rollback returns the consumer to its committed offset; a Commit makes reads permanent
TxnStep == [][\A c \in Cons :
               /\ committed'[c] # committed[c] /\ cst[c] # "absent" => committed'[c] = committed[c] + delta[c] /\ delta'[c] = 0
               /\ delta'[c] < delta[c] => delta'[c] = 0
               /\ delta'[c] > delta[c] => delta'[c] = delta[c] + 1 /\ committed'[c] = committed[c]]_mcvars

\* C12: once the buffer's Close has completed nothing is registered and every consumer is closed
ClosedMeansClosed == bdone => (reg = {} /\ \A c \in Cons : cst[c] \in {"absent", "closed"})

\* C12 (action property): contents stay readable after close: closing never changes log or base
CloseKeepsContents == [][bclosed => (log' = log /\ base' = base)]_mcvars

MCView == <<bvars, holding>>

MCCleaners == {[kind |-> "default"], [kind |-> "fixed", max |-> 1, target |-> 1], [kind |-> "fixed", max |-> 2, target |-> 0]}
=============================================================================
