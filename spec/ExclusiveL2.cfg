SPECIFICATION Spec
CONSTANTS
  Callers = {1, 2, 3}
  KeyOf <- MCKeyOf
  MaxItems = 7
  SuccRunning = TRUE
INVARIANTS AnsweredByLater ExecsLeCalls CleanAtEnd
PROPERTIES NoOverlap Answered
CHECK_DEADLOCK FALSE
