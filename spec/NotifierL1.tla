------------------------------ MODULE NotifierL1 ------------------------------
(***************************************************************************)
(* L1 specification of bigbuff.Notifier (C15).                             *)
(* A subscription is (key, target[, ctx]).  A publish snapshots the        *)
(* eligible subscriptions of its key (context live, element type accepts   *)
(* the value) and then, one at a time and in any order, delivers the value *)
(* to a pending target that can take it, or drops a pending target whose   *)
(* context got cancelled; it returns when nothing is pending or its own    *)
(* context is cancelled.  The registry cannot change while a publish is in *)
(* flight (publishers share a read lock).  The three parallel slices of    *)
(* the implementation are deliberately absent: the set "pending" is what   *)
(* their index arithmetic has to agree with.                               *)
(***************************************************************************)
EXTENDS Integers, Sequences, FiniteSets, TLC

CONSTANTS Targets,   \* target channel ids
          EType,     \* [Targets -> {"int","string","any","ptr","nslice"}] element type of the target channel
          Cap        \* [Targets -> Nat] capacity of the target channel

VARIABLES
  reg,       \* set of subscriptions [key, t, ctx, auto]  (ctx = 0: none; auto: made by SubscribeCancel, i.e. the
             \* library itself unsubscribes it once its context is cancelled)
  inflight,  \* [publisher -> [key, v, vt, pending, pctx]] for publishes in progress (function with dynamic domain)
  queue,     \* [Targets -> sequence of values sent to the target and not yet received]
  ctxc,      \* set of cancelled context ids
  hist       \* history: set of <<publish id, target>> deliveries

vars == <<reg, inflight, queue, ctxc, hist>>

Accepts(et, vt) ==
  CASE vt = "int"    -> et \in {"int", "any"}
    [] vt = "string" -> et \in {"string", "any"}
    [] vt = "nil"    -> et \in {"any", "ptr", "nslice", "func"}    \* the zero value of every element type that may be nil
    [] vt = "slice"  -> et \in {"nslice", "any"}           \* an unnamed []int is assignable to a named slice type
    [] OTHER -> FALSE

Init == reg = {} /\ inflight = <<>> /\ queue = [t \in Targets |-> <<>>] /\ ctxc = {} /\ hist = {}

Publishing == DOMAIN inflight
Live(c) == c = 0 \/ c \notin ctxc

Subscribe(key, t, c, auto, r) ==
  /\ Publishing = {}
  /\ \/ /\ r = "ok" /\ ~\E s \in reg : s.key = key /\ s.t = t
        /\ reg' = reg \cup {[key |-> key, t |-> t, ctx |-> c, auto |-> auto]}
        /\ UNCHANGED <<inflight, queue, ctxc, hist>>
     \/ /\ r = "panic" /\ \E s \in reg : s.key = key /\ s.t = t
        /\ UNCHANGED vars

Unsubscribe(key, t, r) ==
  /\ Publishing = {}
  /\ \/ /\ r = "ok" /\ \E s \in reg : s.key = key /\ s.t = t
        /\ reg' = {s \in reg : ~(s.key = key /\ s.t = t)}
        /\ UNCHANGED <<inflight, queue, ctxc, hist>>
     \/ /\ r = "panic" /\ ~\E s \in reg : s.key = key /\ s.t = t
        /\ UNCHANGED vars

\* SubscribeCancel's goroutine: once the subscription's context is cancelled the library unsubscribes it
AutoUnsub(s) ==
  /\ Publishing = {} /\ s \in reg /\ s.auto /\ ~Live(s.ctx)
  /\ reg' = reg \ {s}
  /\ UNCHANGED <<inflight, queue, ctxc, hist>>

Eligible(key, vt) == {s \in reg : s.key = key /\ Live(s.ctx) /\ Accepts(EType[s.t], vt)}

\* a publish whose context is already cancelled returns at once (no state change)
PubQuick(pctx) == ~Live(pctx) /\ UNCHANGED vars

PubBegin(g, id, key, v, vt, pctx) ==
  /\ g \notin Publishing
  /\ inflight' = [x \in Publishing \cup {g} |->
                    IF x = g THEN [id |-> id, key |-> key, v |-> v, vt |-> vt, pending |-> Eligible(key, vt), pctx |-> pctx]
                    ELSE inflight[x]]
  /\ UNCHANGED <<reg, queue, ctxc, hist>>

\* deliver to one pending target that can take the value now (room in its buffer, or - for an unbuffered target -
\* a receiver; whether a receiver is waiting is known to the caller of this action: canTake)
PubDeliver(g, s, canTake) ==
  /\ g \in Publishing /\ s \in inflight[g].pending /\ canTake
  /\ queue' = [queue EXCEPT ![s.t] = Append(@, inflight[g].v)]
  /\ inflight' = [inflight EXCEPT ![g].pending = @ \ {s}]
  /\ hist' = hist \cup {<<inflight[g].id, s.t>>}
  /\ UNCHANGED <<reg, ctxc>>

PubDrop(g, s) ==
  /\ g \in Publishing /\ s \in inflight[g].pending /\ ~Live(s.ctx)
  /\ inflight' = [inflight EXCEPT ![g].pending = @ \ {s}]
  /\ UNCHANGED <<reg, queue, ctxc, hist>>

PubEnd(g) ==
  /\ g \in Publishing
  /\ inflight[g].pending = {} \/ ~Live(inflight[g].pctx)
  /\ inflight' = [x \in Publishing \ {g} |-> inflight[x]]
  /\ UNCHANGED <<reg, queue, ctxc, hist>>

Recv(t, v) ==
  /\ queue[t] # <<>> /\ Head(queue[t]) = v
  /\ queue' = [queue EXCEPT ![t] = Tail(@)]
  /\ UNCHANGED <<reg, inflight, ctxc, hist>>

Cancel(c) == ctxc' = ctxc \cup {c} /\ UNCHANGED <<reg, inflight, queue, hist>>

-----------------------------------------------------------------------------
TypeOK == \A g \in Publishing : inflight[g].pending \subseteq reg

\* C15: nothing is ever queued beyond what a target's buffer plus one in-progress rendez-vous can hold
\* C15 (action property): a publish only ever hands its value to subscriptions of its key whose type accepts it
DeliverOnlyEligible == [][\A t \in Targets : Len(queue'[t]) > Len(queue[t]) =>
     \E g \in Publishing : \E s \in inflight[g].pending :
        s.t = t /\ s.key = inflight[g].key /\ Accepts(EType[t], inflight[g].vt) /\ queue'[t] = Append(queue[t], inflight[g].v)]_vars

\* C15 (action property): the registry is frozen while any publish is in flight
FrozenWhilePublishing == [][Publishing # {} => reg' = reg]_vars
=============================================================================
