SPECIFICATION GSpec
CONSTANTS
  MaxSrc = 3
  Depth = 4
INVARIANTS GenOut Lossless TypeOK
CHECK_DEADLOCK FALSE
