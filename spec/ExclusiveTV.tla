------------------------------ MODULE ExclusiveTV ------------------------------
(***************************************************************************)
(* Trace validation of recorded bigbuff.Exclusive histories (C09, C10).    *)
(* The oracle is the history reading of the two properties.  Work          *)
(* functions (supplied by the driver) log wstart(e,key,fn) when they are   *)
(* entered, wresolved(e) after they called resolve, wend(e) immediately    *)
(* before they return.  The value an execution resolves with is its own    *)
(* identity e, so the outcome a call receives names the execution that     *)
(* answered it (an execution that fails resolves with the error "E<e>").   *)
(* Calls go through every entry point (CallWithOptions with Work and       *)
(* wrappers, Call, CallAfter, CallAsync, CallAfterAsync, Start,            *)
(* StartAfter).  For CallWithOptions the wstart / wend events are logged   *)
(* by an OUTER wrapper (given after the rate limit, so the interval        *)
(* includes what ExclusiveRateLimit adds and wend carries the measured     *)
(* duration), wlayer by an INNER wrapper (given first), wresolved by the   *)
(* work function.                                                          *)
(***************************************************************************)
EXTENDS Integers, Sequences, FiniteSets, TLC, Json, IOUtils, TLCExt

TLog == ndJsonDeserialize(IOEnv.TRACE)
NL   == Len(TLog)
GS == {TLog[i].g : i \in {j \in 1..NL : "g" \in DOMAIN TLog[j]}}
PROP == IF "PROP" \in DOMAIN IOEnv THEN IOEnv.PROP ELSE "all"
Chk(p) == PROP = "all" \/ PROP = p

VARIABLES l, pend,
  running,    \* [key -> execution between wstart and wend, or 0]   (keys appear dynamically: function with growing domain)
  execs,      \* [e -> [key, fn, line, resolved, ended, mode]]
  ncalls,     \* number of calls made so far
  fnsOf,      \* [key -> set of fn ids supplied by calls made so far]
  starts,     \* set of [key, line] for start-style calls not yet followed by an execution
  rlc,        \* the context of the rate limits has been (or is being) cancelled
  fnExec,     \* [fn -> the execution that ran the function supplied by call fn]
  answered    \* fn ids of the (non start-style) calls that have received their outcome
vars == <<running, execs, ncalls, fnsOf, starts, rlc, fnExec, answered>>
tvars == <<vars, l, pend>>
Idle == [st |-> "idle", line |-> 0]

TVInit == /\ l = 1 /\ pend = [g \in GS |-> Idle]
          /\ running = <<>> /\ execs = <<>> /\ ncalls = 0 /\ fnsOf = <<>> /\ starts = {} /\ rlc = FALSE /\ fnExec = <<>> /\ answered = {}
          /\ TLCSet(1, 0)

Cur == TLog[l]
IsEv(e) == l <= NL /\ Cur.ev = e
Consume == l' = l + 1
Get(f, k, d) == IF k \in DOMAIN f THEN f[k] ELSE d
Put(f, k, v) == [x \in DOMAIN f \cup {k} |-> IF x = k THEN v ELSE f[x]]

TReset ==
  /\ IsEv("reset") /\ Consume
  /\ pend' = [g \in GS |-> Idle] /\ running' = <<>> /\ execs' = <<>> /\ ncalls' = 0 /\ fnsOf' = <<>> /\ starts' = {} /\ rlc' = FALSE /\ fnExec' = <<>> /\ answered' = {}

TCall ==
  /\ IsEv("call") /\ Consume /\ pend[Cur.g].st = "idle"
  /\ ncalls' = ncalls + 1
  /\ fnsOf' = Put(fnsOf, Cur.key, Get(fnsOf, Cur.key, {}) \cup {Cur.fn})
  /\ IF Cur.start
       THEN /\ starts' = starts \cup {[key |-> Cur.key, line |-> l]}
            /\ pend' = [pend EXCEPT ![Cur.g] = [st |-> "start", line |-> l]]
       ELSE /\ starts' = starts
            /\ pend' = [pend EXCEPT ![Cur.g] = [st |-> "called", line |-> l]]
  /\ UNCHANGED <<running, execs, rlc, fnExec, answered>>

\* C09: an execution starts only when no other execution of its key is between wstart and wend
\* C10: executions never outnumber calls; the function was supplied by a call of this key
TWStart ==
  /\ IsEv("wstart") /\ Consume
  /\ Chk("mutex") => Get(running, Cur.key, 0) = 0
  /\ Cardinality(DOMAIN execs) + 1 <= ncalls
  /\ Cur.fn \in Get(fnsOf, Cur.key, {})
  \* the executed function was supplied by one of the callers coalesced into this execution: a call joins exactly one
  \* execution, so its function runs at most once, and never after the call has been answered
  /\ Cur.fn \notin DOMAIN fnExec /\ Cur.fn \notin answered
  /\ fnExec' = Put(fnExec, Cur.fn, Cur.e)
  /\ running' = Put(running, Cur.key, Cur.e)
  /\ execs' = Put(execs, Cur.e, [key |-> Cur.key, fn |-> Cur.fn, line |-> l, resolved |-> FALSE, ended |-> FALSE, mode |-> Cur.mode,
                                  rate |-> Cur.rate_us, fail |-> Cur.fail, inner |-> Cur.mode = "value", kind |-> ""])
  /\ starts' = {s \in starts : s.key # Cur.key}       \* every earlier Start of this key is now followed by an execution
  /\ UNCHANGED <<pend, ncalls, fnsOf, rlc, answered>>

\* the inner wrapper runs inside the outer one (wrappers: left -> right is inner -> outer), once, before the work resolves
TWLayer ==
  /\ IsEv("wlayer") /\ Consume
  /\ Cur.e \in DOMAIN execs /\ ~execs[Cur.e].inner /\ ~execs[Cur.e].resolved /\ ~execs[Cur.e].ended
  /\ execs' = [execs EXCEPT ![Cur.e].inner = TRUE]
  /\ UNCHANGED <<pend, running, ncalls, fnsOf, starts, rlc, fnExec, answered>>

TRlCancel == IsEv("rlcancel") /\ Consume /\ rlc' = TRUE /\ UNCHANGED <<pend, running, execs, ncalls, fnsOf, starts, fnExec, answered>>

TWResolved ==
  /\ IsEv("wresolved") /\ Consume
  /\ Cur.e \in DOMAIN execs /\ execs[Cur.e].inner /\ ~execs[Cur.e].resolved
  /\ execs' = [execs EXCEPT ![Cur.e].resolved = TRUE]
  /\ UNCHANGED <<pend, running, ncalls, fnsOf, starts, rlc, fnExec, answered>>

TWEnd ==
  /\ IsEv("wend") /\ Consume
  /\ Cur.e \in DOMAIN execs
  \* a rate-limited execution holds its key for at least the minimum duration, unless the rate limit's context was cancelled
  \* (the rlcancel line is logged before the cancellation happens: not logged yet means not cancelled yet); a rate limit
  \* whose context is already cancelled does not run the work at all
  /\ (execs[Cur.e].rate > 0 /\ ~rlc) => (Cur.dur_ns >= execs[Cur.e].rate * 1000 /\ execs[Cur.e].inner)
  /\ (execs[Cur.e].rate = 0) => execs[Cur.e].inner
  /\ execs' = [execs EXCEPT ![Cur.e].ended = TRUE]
  /\ running' = IF Get(running, execs[Cur.e].key, 0) = Cur.e THEN Put(running, execs[Cur.e].key, 0) ELSE running
  /\ UNCHANGED <<pend, ncalls, fnsOf, starts, rlc, fnExec, answered>>

\* C10: the outcome is the outcome of an execution of the same key that began after the call was made
Answers(e, g) ==
  /\ e \in DOMAIN execs
  /\ execs[e].key = TLog[pend[g].line].key
  /\ execs[e].line > pend[g].line
  \* if the function this call supplied was executed at all, then by the execution that answers the call
  /\ Get(fnExec, TLog[pend[g].line].fn, e) = e

TRet ==
  /\ IsEv("ret") /\ Consume
  /\ LET g == Cur.g IN
     /\ TLog[pend[g].line].ret = l
     /\ \/ pend[g].st = "start" /\ Cur.r = "nil"                 \* start-style calls return no outcome channel
        \/ /\ pend[g].st = "called" /\ Cur.r = "ok"
           /\ Answers(Cur.e, g) /\ execs[Cur.e].resolved /\ execs[Cur.e].mode # "never"
           /\ (execs[Cur.e].mode = "multi" \/ ~execs[Cur.e].fail)
        \/ /\ pend[g].st = "called" /\ Cur.r = "err"             \* the error of the answering execution, and no result
           /\ Answers(Cur.e, g) /\ execs[Cur.e].resolved /\ execs[Cur.e].mode # "never"
           /\ (execs[Cur.e].mode = "multi" \/ execs[Cur.e].fail)
        \/ /\ pend[g].st = "called" /\ Cur.r = "notresolved"     \* the work function returned without resolving
           /\ \E e \in DOMAIN execs : Answers(e, g) /\ execs[e].mode = "never" /\ execs[e].ended /\ execs[e].inner
        \/ /\ pend[g].st = "called" /\ Cur.r = "rlcancelled"     \* a rate limit whose context is cancelled answers with its error
           /\ rlc /\ \E e \in DOMAIN execs : Answers(e, g) /\ execs[e].rate > 0 /\ ~execs[e].inner
     /\ Cur.closed                                              \* outcome channels are closed after the outcome
     \* mode "multi": several goroutines resolved at the same instant, with different outcomes ("ok" and "err"): only the
     \* first resolve counts, so all callers coalesced into the execution received the identical outcome
     /\ IF Cur.r \in {"ok", "err"} /\ Cur.e \in DOMAIN execs
           THEN /\ execs[Cur.e].kind \in {"", Cur.r}
                /\ execs' = [execs EXCEPT ![Cur.e].kind = Cur.r]
           ELSE execs' = execs
     /\ pend' = [pend EXCEPT ![g] = Idle]
     /\ answered' = IF pend[g].st = "called" THEN answered \cup {TLog[pend[g].line].fn} ELSE answered
  /\ UNCHANGED <<running, ncalls, fnsOf, starts, rlc, fnExec>>

\* a call without a work function panics and leaves no per-key state (the quiescent / final lines compare the key count)
TBadCall == IsEv("badcall") /\ Consume /\ Cur.panicked /\ UNCHANGED <<vars, pend>>

TRelease == IsEv("release") /\ Consume /\ UNCHANGED <<vars, pend>>

KeyRunning(k) == Get(running, k, 0) # 0

TQuiescent ==
  /\ IsEv("quiescent") /\ Consume
  /\ {g \in GS : pend[g].st # "idle"} = {Cur.pending[i] : i \in 1..Len(Cur.pending)}
  \* exactly quiescent: a call can only be waiting because an execution of ITS key is being held open by the driver
  \* (work on other keys never delays it); which batch the call joined is not observable, so no more is required
  /\ \A g \in GS : pend[g].st = "called" => KeyRunning(TLog[pend[g].line].key)
  /\ \A g \in GS : pend[g].st # "start"
  \* every Start is followed by an execution, unless one of its key is still being held open
  /\ \A s \in starts : KeyRunning(s.key)
  \* no per-key state remains when nothing is running
  /\ (\A k \in DOMAIN running : running[k] = 0) => Cur.keys = 0
  /\ UNCHANGED <<vars, pend>>

TFinal ==
  /\ IsEv("final") /\ Consume
  /\ Cur.leaked = 0 /\ Cur.returned /\ starts = {} /\ Cur.keys = 0
  /\ \A k \in DOMAIN running : running[k] = 0
  /\ UNCHANGED <<vars, pend>>

TVNext == TReset \/ TBadCall \/ TRelease \/ TCall \/ TRet \/ TWStart \/ TWLayer \/ TRlCancel \/ TWResolved \/ TWEnd \/ TQuiescent \/ TFinal
TVSpec == TVInit /\ [][TVNext]_tvars
Mark ==
  /\ IF l - 1 > TLCGet(1) THEN TLCSet(1, l - 1) ELSE TRUE
  /\ IF l - 1 = NL THEN PrintT(<<"TVDONE", NL>>) /\ TLCSet("exit", TRUE) ELSE TRUE
Accepted == PrintT(<<"TVMARK", TLCGet(1), NL>>) /\ TLCGet(1) = NL
=============================================================================
