------------------------------ MODULE BulkTV ------------------------------
(***************************************************************************)
(* C01 with large batches under real contention (driver "bulk": a few      *)
(* producers Put batches of several thousand consecutive integers in tight *)
(* loops on a Buffer without consumers, so nothing is ever evicted).       *)
(* A search for the linearization order of dozens of overlapping Puts over *)
(* sequences of 10^5 values is hopeless when the history is NOT            *)
(* explainable, so the consequence of "Put is atomic and appends" is       *)
(* checked directly on the final contents, which the driver logs           *)
(* run-length encoded (maximal runs <<start, length>> of consecutive       *)
(* integers; the values of one producer are consecutive across batches):   *)
(*   - every batch <<first, n>> lies inside ONE run (it was not split by   *)
(*     somebody else's values);                                            *)
(*   - the runs of one producer appear in increasing order (its batches    *)
(*     are in the order it made them);                                     *)
(*   - the contents are exactly the batches (lengths add up).              *)
(* Every "slicer" line is checked on its own (TVBAD lists the failures).   *)
(***************************************************************************)
EXTENDS Integers, Sequences, FiniteSets, TLC, Json, IOUtils, TLCExt

TLog == ndJsonDeserialize(IOEnv.TRACE)
NL   == Len(TLog)

StartOf(i) == CHOOSE j \in 1..i : TLog[j].ev = "reset" /\ \A k \in (j + 1)..i : TLog[k].ev # "reset"
RECURSIVE SumN(_)
SumN(S) == IF S = {} THEN 0 ELSE LET x == CHOOSE x \in S : TRUE IN TLog[x].n + SumN(S \ {x})
Producer(v) == v \div 10000000

SliceOK(i) ==
  LET runs == TLog[i].runs
      puts == {j \in StartOf(i)..(i - 1) : TLog[j].ev = "putr"}
      R    == 1..Len(runs)
  IN /\ TLog[i].notint = 0
     /\ \A j \in puts : TLog[j].ok
     /\ \A j \in puts : \E r \in R : runs[r][1] <= TLog[j].first /\ TLog[j].first + TLog[j].n <= runs[r][1] + runs[r][2]
     /\ \A r1, r2 \in R : (r1 < r2 /\ Producer(runs[r1][1]) = Producer(runs[r2][1])) => runs[r1][1] < runs[r2][1]
     /\ TLog[i].len = SumN(puts)

VARIABLE l
TVInit == l = 1 /\ TLCSet(1, 0) /\ TLCSet(2, 0)
Cur == TLog[l]
CaseOK == IF Cur.ev = "slicer" THEN SliceOK(l) ELSE TRUE
TCase ==
  /\ l <= NL
  /\ IF CaseOK THEN TRUE ELSE PrintT(<<"TVBAD", l>>) /\ TLCSet(2, TLCGet(2) + 1)
  /\ l' = l + 1
TVSpec == TVInit /\ [][TCase]_l
Mark ==
  /\ IF l - 1 > TLCGet(1) THEN TLCSet(1, l - 1) ELSE TRUE
  /\ IF l - 1 = NL THEN PrintT(<<"TVDONE", NL>>) /\ TLCSet("exit", TRUE) ELSE TRUE
Accepted == PrintT(<<"TVMARK", TLCGet(1), NL>>) /\ PrintT(<<"TVBADCOUNT", TLCGet(2)>>) /\ TLCGet(1) = NL
=============================================================================
