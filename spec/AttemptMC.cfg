SPECIFICATION Spec
CONSTANTS Counts = {1, 2, 3}
INVARIANTS AtMostCount AtMostOneForwardedAfterCancel AtMostTwoAfterCancel PreCancelledIsEmpty
PROPERTIES EventuallyClosed ProducerExits
CHECK_DEADLOCK FALSE
