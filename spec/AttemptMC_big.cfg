SPECIFICATION Spec
CONSTANTS Counts = {1, 2, 3, 4, 5, 6}
INVARIANTS AtMostCount AtMostOneForwardedAfterCancel AtMostTwoAfterCancel PreCancelledIsEmpty
PROPERTIES EventuallyClosed ProducerExits
CHECK_DEADLOCK FALSE
