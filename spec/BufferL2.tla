------------------------------ MODULE BufferL2 ------------------------------
(***************************************************************************)
(* The wake-up protocol of bigbuff.Buffer at the granularity of its lock   *)
(* and condition-variable operations (C04, C05):                           *)
(*   - the buffer mutex mu and its condition variable (a Wait registers    *)
(*     the waiter and releases mu atomically; a Broadcast wakes exactly    *)
(*     the registered waiters, whether or not the caller holds mu);        *)
(*   - the cleanup goroutine: WaitCond loop whose predicate calls          *)
(*     cleanup(d): under a local mutex, either records that a change       *)
(*     arrived during a cooldown, or runs the cleaner (repeatedly while it *)
(*     shifts) and starts a cooldown timer goroutine;                      *)
(*   - the timer goroutine: when the timer fires, clears the timer and     *)
(*     re-broadcasts if a change was recorded;                             *)
(*   - one consumer calling Get repeatedly: WaitCond with predicate get(), *)
(*     and WaitCond's watcher goroutine that broadcasts on cancellation;   *)
(*   - environment: Put, Commit (of everything read), context cancel.      *)
(* Switches model the defects that were found / seeded, so that TLC's      *)
(* counterexamples stay reproducible after the repairs:                    *)
(*   TimerLocked   FALSE = D1 (timer broadcasts without mu)                *)
(*   Recheck       FALSE = D4 (cleaner evaluated once per wake-up)         *)
(*   WatcherLocked FALSE = seeded C05-m1 (watcher broadcasts before lock)  *)
(***************************************************************************)
EXTENDS Integers, Sequences, FiniteSets, TLC

CONSTANTS MaxPut, MaxGet,
          Cooldown,        \* BOOLEAN: cooldown > 0
          Fixed, Max, Target,   \* cleaner: FixedBufferCleaner(Max, Target) if Fixed else DefaultCleaner
          TimerLocked, Recheck, WatcherLocked

VARIABLES
  mu,          \* holder of the buffer mutex or "free"
  lmu,         \* holder of the cleaner's local mutex or "free"
  parked,      \* processes registered on the condition variable
  len, base, committed, read,     \* values put; evicted; committed / read by the consumer (absolute)
  timer, bflag,                    \* cooldown in progress; a change arrived during it
  cpc, tpc, gpc, wpc,              \* program counters: cleaner, timer, getter, getter's watcher
  cancelled, nput, nget, gres      \* context cancelled; puts done; gets done; result of the last get

vars == <<mu, lmu, parked, len, base, committed, read, timer, bflag, cpc, tpc, gpc, wpc, cancelled, nput, nget, gres>>

Size == len - base
Min2(a, b) == IF a < b THEN a ELSE b
DefaultShift == LET o == committed - base IN IF o <= 0 THEN 0 ELSE Min2(o, Size)
RawShift == IF Fixed /\ Size > Max THEN Size - Target ELSE DefaultShift
Shift == IF RawShift > Size THEN Size ELSE IF RawShift < 0 THEN 0 ELSE RawShift

Init ==
  /\ mu = "free" /\ lmu = "free" /\ parked = {}
  /\ len = 0 /\ base = 0 /\ committed = 0 /\ read = 0
  /\ timer = FALSE /\ bflag = TRUE
  /\ cpc = "lock" /\ tpc = "none" /\ gpc = "idle" /\ wpc = "none"
  /\ cancelled = FALSE /\ nput = 0 /\ nget = 0 /\ gres = "none"

Broadcast == parked' = {}

-----------------------------------------------------------------------------
(* cleanup goroutine *)
CLock ==
  /\ cpc \in {"lock", "relock"} /\ mu = "free"
  /\ mu' = "C" /\ cpc' = "fnlock"
  /\ UNCHANGED <<lmu, parked, len, base, committed, read, timer, bflag, tpc, gpc, wpc, cancelled, nput, nget, gres>>

\* cleanup(d): lock the local mutex
CFnLock ==
  /\ cpc = "fnlock" /\ lmu = "free"
  /\ lmu' = "C" /\ cpc' = "fn"
  /\ UNCHANGED <<mu, parked, len, base, committed, read, timer, bflag, tpc, gpc, wpc, cancelled, nput, nget, gres>>

\* timer pending: remember that something changed; else run the cleaner (while it shifts) and start the cooldown
CFn ==
  /\ cpc = "fn"
  /\ IF timer
       THEN /\ bflag' = TRUE /\ lmu' = "free" /\ cpc' = "wait"
            /\ UNCHANGED <<base, timer, tpc, parked>>
       ELSE /\ IF Shift > 0
                 THEN /\ base' = base + Shift
                      /\ parked' = {}                         \* cleanupLogic broadcasts after shifting
                      /\ IF Recheck THEN UNCHANGED <<cpc, lmu, timer, bflag, tpc>>     \* repeat while it shifts
                         ELSE /\ lmu' = "free" /\ cpc' = "wait"
                              /\ IF Cooldown THEN timer' = TRUE /\ bflag' = FALSE /\ tpc' = "sleep"
                                 ELSE UNCHANGED <<timer, bflag, tpc>>
                 ELSE /\ lmu' = "free" /\ cpc' = "wait" /\ UNCHANGED <<base, parked>>
                      /\ IF Cooldown THEN timer' = TRUE /\ bflag' = FALSE /\ tpc' = "sleep"
                         ELSE UNCHANGED <<timer, bflag, tpc>>
  /\ UNCHANGED <<mu, len, committed, read, gpc, wpc, cancelled, nput, nget, gres>>

\* the predicate returned false: cond.Wait() registers and releases mu atomically
CWait ==
  /\ cpc = "wait"
  /\ parked' = parked \cup {"C"} /\ mu' = "free" /\ cpc' = "parked"
  /\ UNCHANGED <<lmu, len, base, committed, read, timer, bflag, tpc, gpc, wpc, cancelled, nput, nget, gres>>

CWake ==
  /\ cpc = "parked" /\ "C" \notin parked
  /\ cpc' = "relock"
  /\ UNCHANGED <<mu, lmu, parked, len, base, committed, read, timer, bflag, tpc, gpc, wpc, cancelled, nput, nget, gres>>

-----------------------------------------------------------------------------
(* cooldown timer goroutine *)
TFire ==
  /\ tpc = "sleep"
  /\ tpc' = IF TimerLocked THEN "block" ELSE "llock"
  /\ UNCHANGED <<mu, lmu, parked, len, base, committed, read, timer, bflag, cpc, gpc, wpc, cancelled, nput, nget, gres>>

TBLock ==
  /\ tpc = "block" /\ mu = "free"
  /\ mu' = "T" /\ tpc' = "llock"
  /\ UNCHANGED <<lmu, parked, len, base, committed, read, timer, bflag, cpc, gpc, wpc, cancelled, nput, nget, gres>>

TLLock ==
  /\ tpc = "llock" /\ lmu = "free"
  /\ lmu' = "T" /\ tpc' = "fire"
  /\ UNCHANGED <<mu, parked, len, base, committed, read, timer, bflag, cpc, gpc, wpc, cancelled, nput, nget, gres>>

TDone ==
  /\ tpc = "fire"
  /\ timer' = FALSE
  /\ IF bflag THEN parked' = {} /\ bflag' = FALSE ELSE UNCHANGED <<parked, bflag>>
  /\ lmu' = "free"
  /\ mu' = IF mu = "T" THEN "free" ELSE mu
  /\ tpc' = "none"
  /\ UNCHANGED <<len, base, committed, read, cpc, gpc, wpc, cancelled, nput, nget, gres>>

-----------------------------------------------------------------------------
(* the consumer: Get = lock, WaitCond(get), unlock *)
GStart ==
  /\ gpc = "idle" /\ nget < MaxGet
  /\ gpc' = "lock" /\ gres' = "none"
  /\ UNCHANGED <<mu, lmu, parked, len, base, committed, read, timer, bflag, cpc, tpc, wpc, cancelled, nput, nget>>

GLock ==
  /\ gpc \in {"lock", "relock"} /\ mu = "free"
  /\ mu' = "G" /\ gpc' = "check"
  /\ UNCHANGED <<lmu, parked, len, base, committed, read, timer, bflag, cpc, tpc, wpc, cancelled, nput, nget, gres>>

\* one iteration of WaitCond under mu: context check (spawning the watcher the first time), predicate, or park
GCheck ==
  /\ gpc = "check"
  /\ IF cancelled
       THEN /\ gres' = "canceled" /\ gpc' = "idle" /\ mu' = "free" /\ nget' = nget + 1
            /\ UNCHANGED <<read, parked, wpc>>
       ELSE IF read < base
         THEN /\ gres' = "past" /\ gpc' = "idle" /\ mu' = "free" /\ nget' = nget + 1     \* evicted under a forced trim
              /\ UNCHANGED <<read, parked, wpc>>
       ELSE IF read < len
         THEN /\ gres' = "ok" /\ read' = read + 1 /\ gpc' = "idle" /\ mu' = "free" /\ nget' = nget + 1
              /\ UNCHANGED <<parked, wpc>>
         ELSE /\ wpc' = IF wpc = "none" THEN "watch" ELSE wpc
              /\ gpc' = "wait" /\ UNCHANGED <<gres, read, mu, nget, parked>>
  /\ UNCHANGED <<lmu, len, base, committed, timer, bflag, cpc, tpc, cancelled, nput>>

GWait ==
  /\ gpc = "wait"
  /\ parked' = parked \cup {"G"} /\ mu' = "free" /\ gpc' = "parked"
  /\ UNCHANGED <<lmu, len, base, committed, read, timer, bflag, cpc, tpc, wpc, cancelled, nput, nget, gres>>

GWake ==
  /\ gpc = "parked" /\ "G" \notin parked
  /\ gpc' = "relock"
  /\ UNCHANGED <<mu, lmu, parked, len, base, committed, read, timer, bflag, cpc, tpc, wpc, cancelled, nput, nget, gres>>

\* WaitCond's watcher: <-ctx.Done(); lock; broadcast; unlock  (WatcherLocked = FALSE: broadcast first)
WSee ==
  /\ wpc = "watch" /\ cancelled
  /\ IF WatcherLocked THEN wpc' = "lock" /\ UNCHANGED parked
     ELSE wpc' = "lockafter" /\ parked' = {}
  /\ UNCHANGED <<mu, lmu, len, base, committed, read, timer, bflag, cpc, tpc, gpc, cancelled, nput, nget, gres>>

WLock ==
  /\ wpc \in {"lock", "lockafter"} /\ mu = "free"
  /\ IF wpc = "lock" THEN parked' = {} ELSE UNCHANGED parked        \* broadcast under the lock
  /\ wpc' = "done"
  /\ UNCHANGED <<mu, lmu, len, base, committed, read, timer, bflag, cpc, tpc, gpc, cancelled, nput, nget, gres>>

-----------------------------------------------------------------------------
(* environment: whole critical sections of other callers *)
Put ==
  /\ nput < MaxPut /\ mu = "free"
  /\ len' = len + 1 /\ nput' = nput + 1 /\ Broadcast
  /\ UNCHANGED <<mu, lmu, base, committed, read, timer, bflag, cpc, tpc, gpc, wpc, cancelled, nget, gres>>

Commit ==
  /\ committed < read /\ mu = "free" /\ gpc = "idle"
  /\ committed' = read /\ Broadcast
  /\ UNCHANGED <<mu, lmu, len, base, read, timer, bflag, cpc, tpc, gpc, wpc, cancelled, nput, nget, gres>>

Cancel ==
  /\ ~cancelled /\ cancelled' = TRUE
  /\ UNCHANGED <<mu, lmu, parked, len, base, committed, read, timer, bflag, cpc, tpc, gpc, wpc, nput, nget, gres>>

Next == CLock \/ CFnLock \/ CFn \/ CWait \/ CWake \/ TFire \/ TBLock \/ TLLock \/ TDone
        \/ GStart \/ GLock \/ GCheck \/ GWait \/ GWake \/ WSee \/ WLock \/ Put \/ Commit \/ Cancel

Spec == Init /\ [][Next]_vars
        /\ WF_vars(CLock) /\ WF_vars(CFnLock) /\ WF_vars(CFn) /\ WF_vars(CWait) /\ WF_vars(CWake)
        /\ WF_vars(TFire) /\ WF_vars(TBLock) /\ WF_vars(TLLock) /\ WF_vars(TDone)
        /\ WF_vars(GLock) /\ WF_vars(GCheck) /\ WF_vars(GWait) /\ WF_vars(GWake) /\ WF_vars(WSee) /\ WF_vars(WLock)
        /\ WF_vars(Commit)

-----------------------------------------------------------------------------
TypeOK == base <= len /\ committed <= read /\ read <= len /\ (Fixed \/ base <= committed)
\* C05: a blocked Get returns once a value is available or its context is cancelled - no lost wake-up
NoLostWakeup == (gpc \in {"wait", "parked", "relock", "check"} /\ (read < len \/ cancelled)) ~> (gpc = "idle")
\* C04: everything the consumer committed is eventually reclaimed and stays reclaimed (also inside cooldowns, also
\* after a forced trim), without any further operation
Reclaim == <>[](Shift = 0)
\* C04: FixedBufferCleaner(max, target <= max): at rest the size is at most max
FixedBoundAtRest == <>[](Fixed /\ Target <= Max => Size <= Max)
=============================================================================
