SPECIFICATION MCSpec
CONSTANTS
  Targets = {1, 2, 3}
  EType <- MCEType
  Cap <- MCCap
  Keys = {"a", "b"}
  Pubs = {"p", "q"}
  Ctxs = {1}
  MaxPub = 2
INVARIANTS TypeOK OncePerPublish
PROPERTIES DeliverOnlyEligible FrozenWhilePublishing
CHECK_DEADLOCK FALSE
