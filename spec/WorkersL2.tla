------------------------------ MODULE WorkersL2 ------------------------------
(***************************************************************************)
(* bigbuff.Workers at the granularity of its critical sections (C14).      *)
(* Callers enqueue a function, set the target and top the pool up to their *)
(* count; a worker, under the mutex, either exits (queue empty or more     *)
(* workers than the target) or takes the head of the queue and runs it     *)
(* outside the mutex.  ExitCmp is the comparison used for "more workers    *)
(* than the target": ">" is what the code does; ">=" is the classic        *)
(* mistake that strands the queue when the target shrinks.                 *)
(***************************************************************************)
EXTENDS Integers, Sequences, FiniteSets, TLC

CONSTANTS Calls,      \* call identifiers
          CountOf,    \* [Calls -> count argument]
          MaxWorkers, \* bound on worker process ids
          ExitCmp     \* ">" or ">="

VARIABLES
  count, target, queue,
  cpc,      \* [Calls -> "idle" | "waiting" | "done"]
  wpc,      \* [1..MaxWorkers -> "none" | "check" | "run"]   worker goroutines
  witem,    \* [1..MaxWorkers -> call being run or 0]
  started,  \* set of calls whose function has started
  ended,    \* set of calls whose function has returned
  maxreq,   \* largest count requested so far
  waiter    \* "idle" | "waiting" | "done"  : one goroutine calling Wait

vars == <<count, target, queue, cpc, wpc, witem, started, ended, maxreq, waiter>>
W == 1..MaxWorkers

Init ==
  /\ count = 0 /\ target = 0 /\ queue = <<>>
  /\ cpc = [c \in Calls |-> "idle"]
  /\ wpc = [w \in W |-> "none"] /\ witem = [w \in W |-> 0]
  /\ started = {} /\ ended = {} /\ maxreq = 0 /\ waiter = "idle"

Max(a, b) == IF a > b THEN a ELSE b
Free == {w \in W : wpc[w] = "none"}

\* Call: enqueue, set target, spawn workers up to count (one critical section); n is the count argument
CallEnqueueN(c, n) ==
  /\ cpc[c] = "idle"
  /\ LET need == IF count < n THEN n - count ELSE 0 IN
     /\ Cardinality(Free) >= need
     /\ \E S \in SUBSET Free : Cardinality(S) = need /\
          wpc' = [w \in W |-> IF w \in S THEN "check" ELSE wpc[w]]
     /\ count' = Max(count, n)
     /\ target' = n
     /\ maxreq' = Max(maxreq, n)
  /\ queue' = Append(queue, c)
  /\ cpc' = [cpc EXCEPT ![c] = "waiting"]
  /\ UNCHANGED <<witem, started, ended, waiter>>
CallEnqueue(c) == CallEnqueueN(c, CountOf[c])

TooMany == IF ExitCmp = ">" THEN count > target ELSE count >= target

\* worker: one critical section deciding between exit and take
WorkerCheck(w) ==
  /\ wpc[w] = "check"
  /\ IF queue = <<>> \/ TooMany
       THEN /\ count' = count - 1
            /\ wpc' = [wpc EXCEPT ![w] = "none"]
            /\ UNCHANGED <<queue, witem, started>>
       ELSE /\ witem' = [witem EXCEPT ![w] = Head(queue)]
            /\ queue' = Tail(queue)
            /\ wpc' = [wpc EXCEPT ![w] = "run"]
            /\ started' = started \cup {Head(queue)}
            /\ UNCHANGED count
  /\ UNCHANGED <<target, cpc, ended, maxreq, waiter>>

\* the function returns; its result is handed to the caller
WorkerFinish(w) ==
  /\ wpc[w] = "run"
  /\ ended' = ended \cup {witem[w]}
  /\ cpc' = [cpc EXCEPT ![witem[w]] = "done"]
  /\ witem' = [witem EXCEPT ![w] = 0]
  /\ wpc' = [wpc EXCEPT ![w] = "check"]
  /\ UNCHANGED <<count, target, queue, started, maxreq, waiter>>

WaitBegin == waiter = "idle" /\ waiter' = "waiting" /\ UNCHANGED <<count, target, queue, cpc, wpc, witem, started, ended, maxreq>>
WaitEnd   == waiter = "waiting" /\ count = 0 /\ waiter' = "done" /\ UNCHANGED <<count, target, queue, cpc, wpc, witem, started, ended, maxreq>>

Next ==
  \/ \E c \in Calls : CallEnqueue(c)
  \/ \E w \in W : WorkerCheck(w) \/ WorkerFinish(w)
  \/ WaitBegin \/ WaitEnd

Fairness == \A w \in W : WF_vars(WorkerCheck(w)) /\ WF_vars(WorkerFinish(w))
Spec == Init /\ [][Next]_vars /\ Fairness

-----------------------------------------------------------------------------
Running == {w \in W : wpc[w] = "run"}
TypeOK == count = Cardinality({w \in W : wpc[w] # "none"})
\* C14: never more functions executing than the largest count requested so far
Bound == Cardinality(Running) <= maxreq
\* C14: a function is started at most once (it leaves the queue when it starts) and a caller is answered only by its own function
ExactlyOnce == /\ \A c \in Calls : cpc[c] = "done" => c \in ended
               /\ \A i, j \in 1..Len(queue) : i # j => queue[i] # queue[j]
               /\ \A i \in 1..Len(queue) : queue[i] \notin started
\* C14: Wait returns only when no worker is running
WaitMeansIdle == [][(waiter = "waiting" /\ waiter' = "done") => count = 0 /\ Running = {}]_vars
\* C14 (liveness): no call is starved, also when targets shrink
NoStarvation == \A c \in Calls : (cpc[c] = "waiting") ~> (cpc[c] = "done")
\* a queued function always has a worker that will get to it
QueueServed == (queue # <<>>) => count > 0
MCCountOf == (1 :> 3) @@ (2 :> 1) @@ (3 :> 2) @@ (4 :> 1)
MCCountOfBig == (1 :> 4) @@ (2 :> 1) @@ (3 :> 3) @@ (4 :> 1) @@ (5 :> 2) @@ (6 :> 1)
=============================================================================
