------------------------------ MODULE ChannelTV ------------------------------
(* Trace validation of recorded bigbuff.Channel histories against ChannelL1 (see BufferTV for the conventions). *)
EXTENDS ChannelL1, Json, IOUtils, TLCExt

TLog == ndJsonDeserialize(IOEnv.TRACE)
NL   == Len(TLog)
PROP == IF "PROP" \in DOMAIN IOEnv THEN IOEnv.PROP ELSE "all"
Chk(p) == PROP = "all" \/ PROP = p
GS == {TLog[i].g : i \in {j \in 1..NL : "g" \in DOMAIN TLog[j]}}

VARIABLES l, pend, ctxc, cdone,  \* ctxc: context ids whose cancellation is announced (100 = the Channel's own parent); cdone: completed
  cs   \* the Get that was inside its critical section - past its check of the Channel's context, before its receive from
       \* the source - at the instant the PARENT context was cancelled ("" if none): see LinLateTake
tvars == <<vars, l, pend, ctxc, cdone, cs>>
Idle == [st |-> "idle", line |-> 0, pre |-> FALSE]

TVInit == Init /\ l = 1 /\ pend = [g \in GS |-> Idle] /\ ctxc = {} /\ cdone = {} /\ cs = "" /\ TLCSet(1, 0)

Cur == TLog[l]
IsEv(e) == l <= NL /\ Cur.ev = e
Consume == l' = l + 1
CallOf(g) == TLog[pend[g].line]
HasRet(g) == CallOf(g).ret # 0
RetOf(g) == TLog[CallOf(g).ret]
MatchR(g, r) == HasRet(g) => RetOf(g).r = r
Cx(g) == LET e == CallOf(g) IN
  IF ~("ctx" \in DOMAIN e) \/ e.ctx = 0 THEN "live"
  ELSE IF pend[g].pre THEN "pre" ELSE IF e.ctx \in ctxc THEN "now" ELSE "live"
SetPend(g, st) == pend' = [pend EXCEPT ![g].st = st]

TReset ==
  /\ IsEv("reset") /\ Consume
  /\ src' = <<>> /\ srcClosed' = FALSE /\ buf' = <<>> /\ rb' = 0
  /\ cancelled' = FALSE /\ once' = FALSE /\ closer' = "" /\ done' = FALSE
  /\ taken' = <<>> /\ commits' = <<>>
  /\ pend' = [g \in GS |-> Idle] /\ ctxc' = {} /\ cdone' = {} /\ cs' = ""

TCall ==
  /\ IsEv("call") /\ Consume
  /\ pend[Cur.g].st = "idle"
  /\ pend' = [pend EXCEPT ![Cur.g] = [st |-> "called", line |-> l, pre |-> ("ctx" \in DOMAIN Cur /\ Cur.ctx \in cdone)]]
  /\ UNCHANGED <<vars, ctxc, cdone, cs>>

TRet ==
  /\ IsEv("ret") /\ Consume
  /\ pend[Cur.g].st = "done" /\ CallOf(Cur.g).ret = l
  /\ pend' = [pend EXCEPT ![Cur.g] = Idle]
  /\ UNCHANGED <<vars, ctxc, cdone, cs>>

TCancel ==
  /\ IsEv("cancel") /\ Consume
  /\ ctxc' = ctxc \cup {Cur.ctx}
  \* (the cancellation of the Channel's own parent context (100) takes effect somewhere between this line and the
  \*  matching "cancelled" line: a silent step, see TSilent)
  /\ UNCHANGED <<vars, pend, cdone, cs>>

TCancelled ==
  /\ IsEv("cancelled") /\ Consume /\ cdone' = cdone \cup {Cur.ctx}
  /\ Cur.ctx = 100 => cancelled          \* by now the parent's cancellation has taken effect
  /\ UNCHANGED <<vars, pend, ctxc, cs>>

TSrc == IsEv("src") /\ Consume /\ SrcSend(Cur.v) /\ UNCHANGED <<pend, ctxc, cdone, cs>>
TSrcClose == IsEv("srcclose") /\ Consume /\ SrcClose /\ UNCHANGED <<pend, ctxc, cdone, cs>>

CanProgress(g) ==
  LET p == pend[g] e == TLog[p.line] IN
  CASE p.st = "called" /\ e.op = "Get" -> GetCanComplete(Cx(g))
    [] p.st = "called" /\ e.op = "Close" -> ~once \/ done
    [] p.st = "held" -> TRUE
    [] p.st = "called" -> TRUE
    [] p.st = "done" -> TRUE
    [] OTHER -> FALSE

TQuiescent ==
  /\ IsEv("quiescent") /\ Consume
  /\ {g \in GS : pend[g].st # "idle"} = {Cur.pending[i] : i \in 1..Len(Cur.pending)}
  \* exact quiescence: no pending call can be completable, no internal close step left, and the projected state agrees
  /\ Cur.exact => /\ \A g \in GS : pend[g].st # "idle" => ~CanProgress(g)
                  /\ ~(once /\ ~done) /\ ~(cancelled /\ ~once)
  /\ (Cur.exact \/ Cur.pending = <<>>) => (Cur.buflen = Len(buf) /\ Cur.rb = rb)
  /\ cs = ""
  /\ UNCHANGED <<vars, pend, ctxc, cdone, cs>>

TFinal ==
  /\ IsEv("final") /\ Consume
  /\ Cur.rest = src                     \* what is left in the source channel is exactly what was never taken
  /\ Chk("close") => (Cur.leaked = 0 /\ Cur.returned)
  /\ cs = ""
  /\ UNCHANGED <<vars, pend, ctxc, cdone, cs>>

\* (cancelling the Channel's own parent context (id 100) is a state change that disables actions: steps may precede it)
SilentOK == l <= NL /\ Cur.ev \notin {"call", "reset", "src", "srcclose"} /\ ~(Cur.ev \in {"cancel", "cancelled"} /\ Cur.ctx # 100)

LinGet(g) ==
  /\ pend[g].st = "called" /\ CallOf(g).op = "Get"
  /\ \E r \in {"ok", "canceled"} :
       /\ MatchR(g, r)
       /\ Get(Cx(g), r, IF HasRet(g) THEN RetOf(g).v ELSE IF rb > 0 THEN buf[Len(buf) - rb + 1] ELSE IF src # <<>> THEN Head(src) ELSE 0)
  /\ SetPend(g, "done")
LinCommit(g) ==
  /\ pend[g].st = "called" /\ CallOf(g).op = "Commit"
  /\ \E r \in {"ok", "nothing", "canceled"} : MatchR(g, r) /\ Commit(r)
  /\ SetPend(g, "done")
LinRollback(g) ==
  /\ pend[g].st = "called" /\ CallOf(g).op = "Rollback"
  /\ \E r \in {"ok", "nothing"} : MatchR(g, r) /\ Rollback(r)
  /\ SetPend(g, "done")
LinBuffer(g) ==
  /\ pend[g].st = "called" /\ CallOf(g).op = "Buffer"
  /\ MatchR(g, "ok")
  /\ IF HasRet(g) THEN BufferObs(RetOf(g).s) ELSE UNCHANGED vars
  /\ SetPend(g, "done")
DoneClosed(g) == HasRet(g) => RetOf(g).done
LinCloseBegin(g) ==
  /\ pend[g].st = "called" /\ CallOf(g).op = "Close"
  /\ CloseBegin(g) /\ SetPend(g, "held")
LinCloseOk(g) ==
  /\ pend[g].st = "held" /\ CallOf(g).op = "Close"
  /\ MatchR(g, "ok") /\ DoneClosed(g) /\ CloseOk(g, "ok") /\ SetPend(g, "done")
LinCloseAgain(g) ==
  /\ pend[g].st = "called" /\ CallOf(g).op = "Close"
  /\ MatchR(g, "once") /\ DoneClosed(g) /\ CloseAgain("once") /\ SetPend(g, "done")

\* Deviation from ChannelL1, where every call is atomic: Get checks the Channel's context and then receives from the source
\* inside one critical section, which excludes every other call and the close of Done() (Close takes the mutex) - but not
\* the cancellation of the PARENT context, which needs no lock. A Get that had passed its check when the parent was
\* cancelled still takes what it finds in the source (even a value sent after the cancellation); until it has left its
\* critical section no other call takes effect and Done() is not closed. (C13 says "once Done is closed nothing more is
\* taken": that still holds.)
LateGets == {g \in GS : pend[g].st = "called" /\ CallOf(g).op = "Get" /\ Cx(g) # "pre" /\ rb = 0}
LinLateTake(g) ==
  /\ cs = g /\ pend[g].st = "called" /\ CallOf(g).op = "Get" /\ src # <<>> /\ MatchR(g, "ok") /\ (HasRet(g) => RetOf(g).v = Head(src))
  /\ src' = Tail(src) /\ buf' = Append(buf, Head(src)) /\ taken' = Append(taken, Head(src))
  /\ UNCHANGED <<srcClosed, rb, cancelled, once, closer, done, commits>>
  /\ cs' = "" /\ SetPend(g, "done")
LinLateMiss(g) == cs = g /\ pend[g].st = "called" /\ src = <<>> /\ cs' = "" /\ UNCHANGED <<vars, pend>>
\* (a Get whose own context is cancelled returns at its guard, before it asks for the mutex: possible at any time)
LinGetNoLock(g) ==
  /\ g # cs /\ pend[g].st = "called" /\ CallOf(g).op = "Get" /\ Cx(g) # "live" /\ MatchR(g, "canceled")
  /\ cs' = cs /\ UNCHANGED vars /\ SetPend(g, "done")

TSilent ==
  /\ SilentOK /\ l' = l
  /\ \/ /\ cs = "" /\ cs' = ""
        /\ \E g \in GS : pend[g].st \in {"called", "held"} /\
             (LinGet(g) \/ LinCommit(g) \/ LinRollback(g) \/ LinBuffer(g) \/ LinCloseBegin(g) \/ LinCloseOk(g) \/ LinCloseAgain(g))
     \/ (UNCHANGED pend /\ cs = "" /\ cs' = "" /\ (CloseBegin("sys") \/ CloseFinish))
     \/ (UNCHANGED pend /\ 100 \in ctxc /\ ~cancelled /\ ParentCancel /\ cs = "" /\ cs' \in {""} \cup LateGets)
     \/ \E g \in GS : LinLateTake(g) \/ LinLateMiss(g) \/ (cs # "" /\ LinGetNoLock(g))
  /\ UNCHANGED <<ctxc, cdone>>

TVNext == TSilent \/ TReset \/ TCall \/ TRet \/ TCancel \/ TCancelled \/ TSrc \/ TSrcClose \/ TQuiescent \/ TFinal
TVSpec == TVInit /\ [][TVNext]_tvars

Mark ==
  /\ IF l - 1 > TLCGet(1) THEN TLCSet(1, l - 1) ELSE TRUE
  /\ IF l - 1 = NL THEN PrintT(<<"TVDONE", NL>>) /\ TLCSet("exit", TRUE) ELSE TRUE
Accepted == PrintT(<<"TVMARK", TLCGet(1), NL>>) /\ TLCGet(1) = NL
=============================================================================
