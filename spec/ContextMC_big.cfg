SPECIFICATION Spec
CONSTANTS N = 4
INVARIANTS ChainAtMostOnce ChainNeverSpontaneous ConflatedLiveWhileAnyLive WgNonNegative CombineCancelledOnlyIfOther
PROPERTIES ChainExactlyOnce ConflatedEventuallyCancelled CombineEventually CombineCleansUp
CHECK_DEADLOCK FALSE
