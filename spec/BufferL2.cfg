SPECIFICATION Spec
CONSTANTS
  MaxPut = 2
  MaxGet = 3
  Cooldown = TRUE
  Fixed = FALSE
  Max = 1
  Target = 1
  TimerLocked = TRUE
  Recheck = TRUE
  WatcherLocked = TRUE
INVARIANTS TypeOK
PROPERTIES NoLostWakeup Reclaim FixedBoundAtRest
CHECK_DEADLOCK FALSE
