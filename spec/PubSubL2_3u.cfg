SPECIFICATION Spec
CONSTANTS
  Senders = {"s1"}
  Subs = {"u1", "u2", "u3"}
  MaxSend = 2
  MaxSub = 1
INVARIANTS NotBroken NoDuplicates CountIsReceipts QuietConsistent
PROPERTIES SendTerminates UnsubTerminates
CHECK_DEADLOCK FALSE
