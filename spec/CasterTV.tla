------------------------------ MODULE CasterTV ------------------------------
(***************************************************************************)
(* Trace validation of recorded stand-alone bigbuff.ChanCaster histories   *)
(* (C08).  Receivers follow the contract: Add(+1), then exactly one of     *)
(* "receive one value from C" or "Add(-1)".  A deterministic history       *)
(* checker (see PubSubTV); counts are settled at quiescent / final lines.  *)
(***************************************************************************)
EXTENDS Integers, Sequences, FiniteSets, TLC, Json, IOUtils, TLCExt

TLog == ndJsonDeserialize(IOEnv.TRACE)
NL   == Len(TLog)
GS == {TLog[i].g : i \in {j \in 1..NL : "g" \in DOMAIN TLog[j]}}

VARIABLES l, pend,
  reg,        \* receivers whose Add(+1) has returned and who have neither received nor started to deregister
  regAt,      \* [receiver -> line of the call of its current Add(+1)]
  inflight,   \* [sender -> [v, standing, dereg]]
  sends,      \* [v -> [n, retLine, must]]
  sentVals, got, strict
vars == <<reg, regAt, inflight, sends, sentVals, got, strict>>
tvars == <<vars, l, pend>>
Idle == [st |-> "idle", line |-> 0]
Get(f, k, d) == IF k \in DOMAIN f THEN f[k] ELSE d
Put(f, k, v) == [x \in DOMAIN f \cup {k} |-> IF x = k THEN v ELSE f[x]]

TVInit == /\ l = 1 /\ pend = [g \in GS |-> Idle] /\ reg = {} /\ regAt = <<>> /\ inflight = <<>> /\ sends = <<>>
          /\ sentVals = {} /\ got = <<>> /\ strict = FALSE /\ TLCSet(1, 0)
Cur == TLog[l]
IsEv(e) == l <= NL /\ Cur.ev = e
Consume == l' = l + 1

TReset ==
  /\ IsEv("reset") /\ Consume
  /\ pend' = [g \in GS |-> Idle] /\ reg' = {} /\ regAt' = <<>> /\ inflight' = <<>> /\ sends' = <<>>
  /\ sentVals' = {} /\ got' = <<>> /\ strict' = (Cur.mode = "c")

TCall ==
  /\ IsEv("call") /\ Consume /\ pend[Cur.g].st = "idle"
  /\ pend' = [pend EXCEPT ![Cur.g] = [st |-> "called", line |-> l]]
  /\ CASE Cur.op = "Send" ->
            /\ inflight' = Put(inflight, Cur.g, [v |-> Cur.v, standing |-> reg, dereg |-> {}])
            /\ sentVals' = sentVals \cup {Cur.v}
            /\ UNCHANGED <<reg, regAt, sends, got, strict>>
       [] Cur.op = "Reg" ->
            /\ regAt' = Put(regAt, Cur.g, l)
            /\ UNCHANGED <<reg, inflight, sends, sentVals, got, strict>>
       [] Cur.op = "Dereg" ->
            \* a receiver only deregisters a registration it holds and has not used
            /\ Cur.g \in reg
            /\ reg' = reg \ {Cur.g}
            /\ inflight' = [s \in DOMAIN inflight |-> [inflight[s] EXCEPT !.dereg = @ \cup {Cur.g}]]
            /\ UNCHANGED <<regAt, sends, sentVals, got, strict>>
       [] OTHER -> UNCHANGED vars

TRecv ==
  /\ IsEv("recv") /\ Consume
  /\ LET g == Cur.g v == Cur.v IN
     /\ g \in reg                                   \* delivered to a registered receiver, and to nobody else
     /\ v \in sentVals
     /\ g \notin Get(got, v, {})                     \* exactly once
     \* a registration requested after the Send had returned cannot receive its value
     /\ v \in DOMAIN sends => sends[v].retLine > regAt[g]
     /\ strict => v \notin DOMAIN sends              \* exact log order: the Send cannot have returned before a receipt
     /\ reg' = reg \ {g}
     /\ got' = Put(got, v, Get(got, v, {}) \cup {g})
     \* the registration is used up: concurrent Sends of other values no longer owe g anything
     /\ inflight' = [s \in DOMAIN inflight |-> IF inflight[s].v = v THEN inflight[s] ELSE [inflight[s] EXCEPT !.dereg = @ \cup {g}]]
  /\ UNCHANGED <<pend, regAt, sends, sentVals, strict>>

TRet ==
  /\ IsEv("ret") /\ Consume
  /\ LET g == Cur.g IN
     /\ pend[g].st = "called" /\ TLog[pend[g].line].ret = l
     /\ Cur.r = "ok"
     /\ pend' = [pend EXCEPT ![g] = Idle]
     /\ CASE Cur.op = "Send" ->
               LET f == inflight[g] IN
               /\ sends' = Put(sends, f.v, [n |-> Cur.n, retLine |-> l, must |-> f.standing \ f.dereg])
               /\ inflight' = [s \in DOMAIN inflight \ {g} |-> inflight[s]]
               /\ UNCHANGED <<reg, regAt, sentVals, got, strict>>
          [] Cur.op = "Reg" ->
               /\ reg' = reg \cup {g}
               /\ UNCHANGED <<regAt, inflight, sends, sentVals, got, strict>>
          [] OTHER -> UNCHANGED vars

\* the count a Send returned is the number of deliveries of its value; every receiver that was registered before
\* the Send began and did not deregister before it returned received the value
Settled == \A v \in DOMAIN sends :
  /\ sends[v].n = Cardinality(Get(got, v, {}))
  \* (only with exact log order: free-running receivers log a receipt after the fact, so "registered when the Send
  \*  began" cannot be read off the log)
  /\ strict => sends[v].must \subseteq Get(got, v, {})

TQuiescent ==
  /\ IsEv("quiescent") /\ Consume
  \* nothing may be stuck except receivers waiting for a value that nobody sends
  /\ \A g \in GS : pend[g].st # "idle" => TLog[pend[g].line].op = "Recv"
  /\ DOMAIN inflight = {}
  /\ Settled
  \* the registered count is exactly the receivers still waiting (zero after a Send that reached everybody)
  /\ Cur.hi = Cardinality(reg) /\ Cur.lo = Cur.hi
  /\ UNCHANGED <<vars, pend>>

\* misuse is reported by a panic; when it corrupted the count every later call panics as well
Expected(c) ==
  CASE c = "neg-on-empty"      -> <<"panic", "panic", "panic", "panic", "panic", "panic">>  \* Add(-1); Add(0); Send; Add(-1); Send; Add(1)
    [] c = "overflow-sum"      -> <<"ok", "panic", "panic", "panic", "panic">>   \* Add(MaxInt32); Add(1); Add(0); Send; Send
    [] c = "pos-out-of-bounds" -> <<"panic", "ok", "ok">>                        \* Add(MaxInt32+1) panics before touching the state
    [] c = "neg-out-of-bounds" -> <<"panic", "ok", "ok">>                        \* Add(-MaxInt32-1) likewise
    [] c = "max-ok"            -> <<"ok", "ok", "ok">>                           \* Add(MaxInt32); Add(-MaxInt32); Add(0): in range
    [] c = "min-int"           -> <<"panic", "ok", "ok">>                        \* Add(math.MinInt)
    [] c = "max-int"           -> <<"panic", "ok", "ok">>                        \* Add(math.MaxInt)
    [] c = "min-int-plus-one"  -> <<"panic", "ok">>
    [] c = "neg-max-on-empty"  -> <<"panic", "panic", "panic">>                  \* Add(-MaxInt32) on an empty caster underflows
    \* Add(2); Send in flight; receive; Add(-3) (unbalanced, during the Send); receive; then Add(0); Send:
    \* the Add, the Send in flight and every later call report it
    [] c = "pos-2pow32"        -> <<"panic", "ok", "ok">>                        \* out of range whatever the low 32 bits are
    [] c = "pos-2pow32-plus"   -> <<"panic", "ok", "ok">>
    [] c = "neg-2pow32"        -> <<"panic", "ok", "ok">>
    \* an unbalanced deregistration is reported, and so is the registration that covers the deficit (the count would wrap
    \* back into range unnoticed otherwise); arithmetically the state is then valid again (see DESIGN.md, observations):
    [] c = "deficit-covered"   -> <<"panic", "panic", "ok", "ok">>              \* Add(-1); Add(1); Add(0); Send (nobody registered)
    [] c = "deficit-overcovered" -> <<"panic", "panic", "ok", "hang">>          \* Add(-3); Add(5); Add(0); Send waits for 2 receivers
    [] c = "unbalanced-during-send" -> <<"panic", "panic", "panic", "panic">>

TMisuse ==
  /\ IsEv("misuse") /\ Consume
  /\ Cur.outcomes = Expected(Cur.case)
  /\ UNCHANGED <<vars, pend>>

TFinal ==
  /\ IsEv("final") /\ Consume
  /\ Settled /\ Cur.leaked = 0 /\ Cur.returned /\ Cur.hi = 0 /\ Cur.lo = 0
  /\ UNCHANGED <<vars, pend>>

TVNext == TReset \/ TCall \/ TRet \/ TRecv \/ TQuiescent \/ TMisuse \/ TFinal
TVSpec == TVInit /\ [][TVNext]_tvars
Mark ==
  /\ IF l - 1 > TLCGet(1) THEN TLCSet(1, l - 1) ELSE TRUE
  /\ IF l - 1 = NL THEN PrintT(<<"TVDONE", NL>>) /\ TLCSet("exit", TRUE) ELSE TRUE
Accepted == PrintT(<<"TVMARK", TLCGet(1), NL>>) /\ TLCGet(1) = NL
=============================================================================
