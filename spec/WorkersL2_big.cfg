SPECIFICATION Spec
CONSTANTS
  Calls = {1, 2, 3, 4, 5, 6}
  CountOf <- MCCountOfBig
  MaxWorkers = 4
  ExitCmp = ">"
INVARIANTS TypeOK Bound ExactlyOnce QueueServed
PROPERTIES WaitMeansIdle NoStarvation
CHECK_DEADLOCK FALSE
