SPECIFICATION Spec
CONSTANTS
  MaxPut = 3
  MaxGet = 3
  Cooldown = FALSE
  Fixed = TRUE
  Max = 1
  Target = 0
  TimerLocked = TRUE
  Recheck = TRUE
  WatcherLocked = TRUE
INVARIANTS TypeOK
PROPERTIES NoLostWakeup Reclaim FixedBoundAtRest
CHECK_DEADLOCK FALSE
