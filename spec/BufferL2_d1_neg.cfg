SPECIFICATION Spec
CONSTANTS
  MaxPut = 2
  MaxGet = 3
  Cooldown = TRUE
  Fixed = FALSE
  Max = 1
  Target = 1
  TimerLocked = FALSE
  Recheck = TRUE
  WatcherLocked = TRUE
INVARIANTS TypeOK
PROPERTIES Reclaim
CHECK_DEADLOCK FALSE
