SPECIFICATION GSpec
CONSTANTS
  Cons = {1, 2}
  NoG = 0
  Depth = 4
  MaxLog = 4
  GFixed = TRUE
  GMax = 1
  GTarget = 1
INVARIANTS GenOut FIFO TypeOK
CHECK_DEADLOCK FALSE
