----------------------------- MODULE WorkersL2TV -----------------------------
(***************************************************************************)
(* Gate-level binding of WorkersL2 to the code (see WorkerL2TV for the     *)
(* idea): "step" lines of controlled executions are mapped to L2 actions.  *)
(*   step D  workers.call.locked    -> CallEnqueueN(id, n) of D's call     *)
(*   step W  workers.worker.locked  -> WorkerCheck(w)                      *)
(*   fnend (the function's own line) -> WorkerFinish(w) of the worker that  *)
(*                                     runs that call                      *)
(*   ret Wait (driver line)         -> count = 0 and nothing running       *)
(* Worker goroutines of the code are mapped to the worker ids of the model *)
(* when they first take the mutex (the lowest spawned, unmapped id); the   *)
(* model spawns the lowest free ids.  Invariants of WorkersL2 are checked  *)
(* in every state the real execution drives the model into.                *)
(***************************************************************************)
EXTENDS WorkersL2, Json, IOUtils, TLCExt

TLog == ndJsonDeserialize(IOEnv.TRACE)
NL   == Len(TLog)
GS == {TLog[i].g : i \in {j \in 1..NL : TLog[j].ev = "call"}}
WS == {TLog[i].g : i \in {j \in 1..NL : TLog[j].ev = "step" /\ TLog[j].pt = "workers.worker.locked"}}

VARIABLES l,
  cur,     \* [driver goroutine -> [id, n] of its Call in progress]
  wmap     \* [worker goroutine of the code -> worker id of the model, 0 = not mapped]
tvars == <<vars, l, cur, wmap>>

Cur == TLog[l]
IsEv(e) == l <= NL /\ Cur.ev = e
Consume == l' = l + 1
NoCall == [id |-> 0, n |-> 0]

TVInit == Init /\ l = 1 /\ cur = [g \in GS |-> NoCall] /\ wmap = [g \in WS |-> 0] /\ TLCSet(1, 0)

TReset ==
  /\ IsEv("reset") /\ Consume
  /\ count' = 0 /\ target' = 0 /\ queue' = <<>>
  /\ cpc' = [c \in Calls |-> "idle"]
  /\ wpc' = [w \in W |-> "none"] /\ witem' = [w \in W |-> 0]
  /\ started' = {} /\ ended' = {} /\ maxreq' = 0 /\ waiter' = "idle"
  /\ cur' = [g \in GS |-> NoCall] /\ wmap' = [g \in WS |-> 0]

Mapped(g, pt) ==
  \/ g \in GS /\ pt = "workers.call.locked"
  \/ g \in WS /\ pt = "workers.worker.locked"

Unmapped == {w \in W : wpc[w] = "check" /\ \A g \in WS : wmap[g] # w}
Lowest(S) == CHOOSE w \in S : \A v \in S : w <= v

TStep ==
  /\ IsEv("step") /\ Consume
  /\ LET g == Cur.g pt == Cur.pt IN
     IF ~Mapped(g, pt) THEN UNCHANGED <<vars, cur, wmap>>
     ELSE CASE pt = "workers.call.locked" ->
                 /\ cur[g].id # 0
                 /\ CallEnqueueN(cur[g].id, cur[g].n)
                 \* (the model spawns the lowest free worker ids)
                 /\ \A w \in W : (wpc[w] = "none" /\ wpc'[w] = "check") => \A v \in Free : v < w => wpc'[v] = "check"
                 /\ UNCHANGED <<cur, wmap>>
            [] pt = "workers.worker.locked" ->
                 LET w == IF wmap[g] # 0 THEN wmap[g] ELSE Lowest(Unmapped) IN
                 /\ (wmap[g] = 0) => Unmapped # {}
                 /\ WorkerCheck(w)
                 \* a worker that exits is never seen again
                 /\ wmap' = [wmap EXCEPT ![g] = IF wpc'[w] = "none" THEN 0 ELSE w]
                 /\ UNCHANGED cur

TCall ==
  /\ IsEv("call") /\ Consume
  /\ cur' = IF Cur.op = "Call" THEN [cur EXCEPT ![Cur.g] = [id |-> Cur.id, n |-> Cur.n]] ELSE cur
  /\ UNCHANGED <<vars, wmap>>

\* Wait returns only when no worker is left; a Call returns only after its own function has been run and handed over
TRet ==
  /\ IsEv("ret") /\ Consume
  /\ Cur.op = "Wait" => (count = 0 /\ Running = {})
  /\ (Cur.op = "Call" /\ Cur.r # "panic") => cpc[cur[Cur.g].id] = "done"
  /\ UNCHANGED <<vars, cur, wmap>>

\* the driver's functions log their own start: the model's worker has taken exactly that call
TFnStart ==
  /\ IsEv("fnstart") /\ Consume
  /\ \E w \in W : wpc[w] = "run" /\ witem[w] = Cur.id
  /\ UNCHANGED <<vars, cur, wmap>>

\* the function is about to return: its result is handed to its caller (the send cannot block: the channel is buffered)
TFnEnd ==
  /\ IsEv("fnend") /\ Consume
  /\ \E w \in W : wpc[w] = "run" /\ witem[w] = Cur.id /\ WorkerFinish(w)
  /\ UNCHANGED <<cur, wmap>>

TOther ==
  /\ l <= NL /\ Cur.ev \in {"fnspan", "bad", "release", "quiescent", "final"} /\ Consume
  /\ Cur.ev = "quiescent" => (Cur.count = count /\ Cur.queue = Len(queue))
  /\ UNCHANGED <<vars, cur, wmap>>

TVNext == TReset \/ TStep \/ TCall \/ TRet \/ TFnStart \/ TFnEnd \/ TOther
TVSpec == TVInit /\ [][TVNext]_tvars

Mark ==
  /\ IF l - 1 > TLCGet(1) THEN TLCSet(1, l - 1) ELSE TRUE
  /\ IF l - 1 = NL THEN PrintT(<<"TVDONE", NL>>) /\ TLCSet("exit", TRUE) ELSE TRUE
Accepted == PrintT(<<"TVMARK", TLCGet(1), NL>>) /\ TLCGet(1) = NL
TVCountOf == [c \in 1..40 |-> 1]
=============================================================================
