SPECIFICATION Spec
CONSTANTS
  MaxPut = 2
  MaxGet = 3
  Cooldown = TRUE
  Fixed = FALSE
  Max = 1
  Target = 1
  TimerLocked = TRUE
  Recheck = TRUE
  WatcherLocked = FALSE
INVARIANTS TypeOK
PROPERTIES NoLostWakeup
CHECK_DEADLOCK FALSE
