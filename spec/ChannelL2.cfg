SPECIFICATION Spec
CONSTANTS
  Getters = {"a", "b"}
  MaxSrc = 3
INVARIANTS TypeOK NothingTakenAfterDone StreamIntact MutexOK
PROPERTIES DoneFollowsCancel GetsReturnAfterCancel
CHECK_DEADLOCK FALSE
