------------------------------ MODULE BufferTV ------------------------------
(***************************************************************************)
(* Trace validation of histories recorded from the real Buffer against     *)
(* BufferL1.  The trace (ndjson, env var TRACE) is a concatenation of      *)
(* executions, each starting with a "reset" line.  Lines:                  *)
(*   call/ret   a public call by goroutine g and its return (ret = line    *)
(*              number of the matching ret line, 0 if it never returned)   *)
(*   cancel     a context is about to be cancelled                         *)
(*   quiescent  the real system was exactly quiescent: no goroutine        *)
(*              runnable, no timer pending; carries the real size and the  *)
(*              goroutines whose calls had not returned                    *)
(*   final      goroutine census after everything was closed               *)
(*   rbegin/cb/rend  bigbuff.Range over a logging consumer                 *)
(* Linearization points and the cleaner are silent steps placed by TLC.    *)
(***************************************************************************)
EXTENDS BufferL1, Json, IOUtils, TLCExt

TLog == ndJsonDeserialize(IOEnv.TRACE)
NL   == Len(TLog)

\* which property family is being decided (env var PROP): selects the optional strict checks
PROP == IF "PROP" \in DOMAIN IOEnv THEN IOEnv.PROP ELSE "all"
Chk(p) == PROP = "all" \/ PROP = p

GS == {TLog[i].g : i \in {j \in 1..NL : "g" \in DOMAIN TLog[j]}}

VARIABLES
  l,          \* next line to consume
  pend,       \* [GS -> [st, line, pre, pc, acc, cont]]
  cancelled,  \* set of context ids whose cancellation has been announced (it may be observed from now on)
  cdone,      \* set of context ids whose cancellation has completed (calls made from now on must see it)
  rs,         \* [GS -> state of bigbuff.Range's control flow, "none" outside Range]
  sil         \* silent steps since the last consumed line

tvars == <<vars, l, pend, cancelled, cdone, rs, sil>>

Idle == [st |-> "idle", line |-> 0, pre |-> FALSE, pc |-> "", acc |-> <<>>, cont |-> FALSE]
NoRs == [s |-> "none", v |-> 0, r |-> ""]

TVInit ==
  /\ Init
  /\ l = 1
  /\ pend = [g \in GS |-> Idle]
  /\ cancelled = {} /\ cdone = {}
  /\ rs = [g \in GS |-> NoRs]
  /\ sil = 0
  /\ TLCSet(1, 0)

Cur == TLog[l]
IsEv(e) == l <= NL /\ Cur.ev = e
Consume == l' = l + 1 /\ sil' = 0

Cx(g) ==
  LET e == TLog[pend[g].line] IN
  IF ~("ctx" \in DOMAIN e) \/ e.ctx = 0 THEN "live"
  ELSE IF pend[g].pre THEN "pre"
  ELSE IF e.ctx \in cancelled THEN "now" ELSE "live"

CallOf(g) == TLog[pend[g].line]
RetLine(g) == CallOf(g).ret
HasRet(g) == RetLine(g) # 0
RetOf(g) == TLog[RetLine(g)]
\* the logged result (when the call returned) must be r
MatchR(g, r) == HasRet(g) => RetOf(g).r = r

SetPend(g, st) == pend' = [pend EXCEPT ![g].st = st]

-----------------------------------------------------------------------------
(* consuming trace lines *)

TReset ==
  /\ IsEv("reset") /\ Consume
  /\ log' = <<>> /\ base' = 0 /\ reg' = {}
  /\ committed' = [c \in Cons |-> 0] /\ delta' = [c \in Cons |-> 0]
  /\ cst' = [c \in Cons |-> "absent"] /\ once' = [c \in Cons |-> FALSE]
  /\ closer' = [c \in Cons |-> NoG] /\ cmu' = [c \in Cons |-> NoG]
  /\ bclosed' = FALSE /\ bonce' = FALSE /\ bcloser' = NoG /\ bdone' = FALSE
  /\ cleaner' = IF Cur.cleaner.kind \in {"fixed", "const"}
                  THEN [kind |-> Cur.cleaner.kind, max |-> Cur.cleaner.max, target |-> Cur.cleaner.target]
                  ELSE [kind |-> "default"]
  /\ start' = [c \in Cons |-> 0] /\ stream' = [c \in Cons |-> <<>>]
  /\ pend' = [g \in GS |-> Idle]
  /\ cancelled' = {} /\ cdone' = {}
  /\ rs' = [g \in GS |-> NoRs]

\* control flow of bigbuff.Range, observed through the logging consumer
RsOnCall(g, op) ==
  IF rs[g].s = "none" THEN rs' = rs
  ELSE /\ \/ op = "Get" /\ rs[g].s = "loop"
          \/ op = "Commit" /\ rs[g].s \in {"cbtrue", "cbfalse"}        \* commit only after the callback returned
          \/ op = "Rollback" /\ rs[g].s \in {"failed", "panicked"}     \* rollback on failure / panic
       /\ rs' = rs

RsOnRet(g, op, r) ==
  IF rs[g].s = "none" THEN rs' = rs
  ELSE rs' = [rs EXCEPT ![g] =
         CASE op = "Get" /\ r = "ok" -> [s |-> "got", v |-> Cur.v, r |-> ""]
           [] op = "Get" /\ r # "ok" -> [s |-> "failed", v |-> 0, r |-> r]
           [] op = "Commit" /\ r = "ok" -> [s |-> IF rs[g].s = "cbtrue" THEN "loop" ELSE "endok", v |-> 0, r |-> ""]
           [] op = "Commit" /\ r # "ok" -> [s |-> "failed", v |-> 0, r |-> r]
           [] op = "Rollback" -> [s |-> "rolled", v |-> 0, r |-> rs[g].r]
           [] OTHER -> rs[g]]

TCall ==
  /\ IsEv("call") /\ Consume
  /\ LET g == Cur.g IN
     /\ pend[g].st = "idle"
     /\ RsOnCall(g, Cur.op)
     /\ pend' = [pend EXCEPT ![g] = [st |-> "called", line |-> l,
                                     pre |-> ("ctx" \in DOMAIN Cur /\ Cur.ctx \in cdone),
                                     pc |-> IF Cur.op = "BRange" THEN "diff0" ELSE "",
                                     acc |-> <<>>, cont |-> FALSE]]
  /\ UNCHANGED <<vars, cancelled, cdone>>

TRet ==
  /\ IsEv("ret") /\ Consume
  /\ LET g == Cur.g IN
     /\ pend[g].st = "done"
     /\ RetLine(g) = l
     /\ RsOnRet(g, Cur.op, IF "r" \in DOMAIN Cur THEN Cur.r ELSE "ok")
     /\ pend' = [pend EXCEPT ![g] = Idle]
  /\ UNCHANGED <<vars, cancelled, cdone>>

TCancel ==
  /\ IsEv("cancel") /\ Consume
  /\ cancelled' = cancelled \cup {Cur.ctx}
  /\ UNCHANGED <<vars, pend, rs, cdone>>

TCancelled ==
  /\ IsEv("cancelled") /\ Consume
  /\ cdone' = cdone \cup {Cur.ctx}
  /\ UNCHANGED <<vars, pend, rs, cancelled>>

TRBegin ==
  /\ IsEv("rbegin") /\ Consume
  /\ rs[Cur.g].s = "none"
  /\ rs' = [rs EXCEPT ![Cur.g] = [s |-> "loop", v |-> 0, r |-> ""]]
  /\ UNCHANGED <<vars, pend, cancelled, cdone>>

TCb ==
  /\ IsEv("cb") /\ Consume
  /\ LET g == Cur.g IN
     /\ rs[g].s = "got" /\ rs[g].v = Cur.v          \* the callback sees exactly the value Get returned
     /\ rs' = [rs EXCEPT ![g].s = CASE Cur.out = "true" -> "cbtrue" [] Cur.out = "false" -> "cbfalse" [] OTHER -> "panicked"]
  /\ UNCHANGED <<vars, pend, cancelled, cdone>>

TREnd ==
  /\ IsEv("rend") /\ Consume
  /\ LET g == Cur.g IN
     /\ \/ rs[g].s = "endok" /\ Cur.r = "ok"
        \/ rs[g].s = "rolled" /\ rs[g].r # "" /\ Cur.r = rs[g].r
        \/ rs[g].s = "rolled" /\ rs[g].r = "" /\ Cur.r = "panic"
        \/ rs[g].s = "loop" /\ Cur.r = "canceled"
     /\ rs' = [rs EXCEPT ![g] = NoRs]
  /\ UNCHANGED <<vars, pend, cancelled, cdone>>

\* Buffer.Range's callback has returned (logged by the callback itself as its last action): only now is the
\* end-of-buffer check (Diff) made, so whatever was Put while the callback ran is still visited
TBcb ==
  /\ IsEv("bcb") /\ Consume
  /\ pend[Cur.g].st = "called" /\ pend[Cur.g].pc = "cb"
  /\ pend' = [pend EXCEPT ![Cur.g].pc = "diff"]
  /\ UNCHANGED <<vars, cancelled, cdone, rs>>

\* a pending call of g could take a step of the specification now (so the real call should not be stuck)
CanProgress(g) ==
  LET p == pend[g] e == TLog[p.line] IN
  CASE p.st = "called" /\ e.op \in {"Put", "NewConsumer", "Size", "Slice", "SetCleaner"} -> TRUE
    [] p.st = "called" /\ e.op = "BClose" -> ~bonce \/ bdone
    [] p.st = "called" /\ e.op = "Get" -> p.pre \/ (cst[e.c] # "absent" /\ cmu[e.c] = NoG)
       \* (a Get queued on the consumer mutex behind another Get has already passed its context check: by design)
    [] p.st = "called" /\ e.op \in {"Commit", "Rollback", "Diff"} -> cst[e.c] # "absent" /\ cmu[e.c] = NoG
    [] p.st = "called" /\ e.op = "Close" -> (cst[e.c] \in {"open", "closing"} /\ ~once[e.c]) \/ cst[e.c] = "closed"
    [] p.st = "called" /\ e.op = "BRange" -> cmu[e.c] = NoG
    [] p.st = "held" /\ e.op = "Get" -> GetCanComplete(e.c, Cx(g))
    [] p.st = "held" /\ e.op = "Close" -> cst[e.c] = "closed"
    [] p.st = "held" /\ e.op = "BClose" -> bdone
    [] p.st = "held" /\ e.op = "BRange" -> p.pc = "held" /\ GetCanComplete(e.c, Cx(g))
    [] p.st = "done" -> TRUE
    [] OTHER -> FALSE

\* library-internal steps that are still possible
InternalEnabled ==
  \/ \E c \in Cons : (cst[c] = "closing" /\ ~once[c])
                  \/ (once[c] /\ cst[c] = "open" /\ cmu[c] = NoG)
                  \/ (once[c] /\ cst[c] = "closing" /\ cmu[c] = NoG /\ delta[c] = 0)
  \/ (bonce /\ ~bclosed) \/ (bclosed /\ ~bdone /\ reg = {})

TQuiescent ==
  /\ IsEv("quiescent") /\ Consume
  \* C05/C12: nothing that the specification says can still happen is pending in the real, exactly quiescent system
  /\ (Chk("wake") \/ Chk("close")) => (\A g \in GS : pend[g].st # "idle" => ~CanProgress(g))
  /\ (Chk("wake") \/ Chk("close")) => ~InternalEnabled
  \* the goroutines the harness saw blocked are exactly those with a pending call
  /\ {g \in GS : pend[g].st # "idle"} = {Cur.pending[i] : i \in 1..Len(Cur.pending)}
  \* C04: the cleaner has nothing left to do, and the real size is the model's
  /\ Chk("reclaim") => (bclosed \/ CleanShift = 0)
  /\ (Chk("reclaim") \/ Chk("retention")) => Cur.size = Size
  /\ UNCHANGED <<vars, pend, cancelled, cdone, rs>>

TFinal ==
  /\ IsEv("final") /\ Consume
  /\ Chk("close") => (Cur.leaked = 0 /\ Cur.returned)
  /\ UNCHANGED <<vars, pend, cancelled, cdone, rs>>

-----------------------------------------------------------------------------
(* silent steps: linearization points of pending calls, library-internal steps *)

\* silent steps are only placed immediately before a line that is not a call/cancel (a normal form that loses no
\* behaviours: a later linearization point only sees more cancelled contexts and more pending calls)
SilentOK == l <= NL /\ Cur.ev \notin {"call", "cancel", "cancelled", "rbegin", "reset"}
Silent == sil' = sil /\ l' = l

LinPut(g) ==
  /\ pend[g].st = "called" /\ CallOf(g).op = "Put"
  /\ \E r \in {"ok", "canceled"} : MatchR(g, r) /\ Put(CallOf(g).vals, Cx(g), r)
  /\ SetPend(g, "done")

LinNewConsumer(g) ==
  /\ pend[g].st = "called" /\ CallOf(g).op = "NewConsumer"
  /\ \E r \in {"ok", "canceled"} : MatchR(g, r) /\ NewConsumer(CallOf(g).c, r)
  /\ SetPend(g, "done")

LinGetQuick(g) ==
  /\ pend[g].st = "called" /\ CallOf(g).op = "Get"
  /\ MatchR(g, "canceled") /\ GetQuick(CallOf(g).c, Cx(g), "canceled")
  /\ SetPend(g, "done")

LinGetAcquire(g) ==
  /\ pend[g].st = "called" /\ CallOf(g).op = "Get"
  /\ cst[CallOf(g).c] # "absent"
  /\ GetAcquire(g, CallOf(g).c)
  /\ SetPend(g, "held")

GetValue(g, c) == IF HasRet(g) THEN RetOf(g).v ELSE IF Pos(c) < Len(log) THEN log[Pos(c) + 1] ELSE 0

LinGetDone(g) ==
  /\ pend[g].st = "held" /\ CallOf(g).op = "Get"
  /\ LET c == CallOf(g).c IN
     \E r \in {"ok", "past", "canceled"} : MatchR(g, r) /\ GetDone(g, c, Cx(g), r, GetValue(g, c))
  /\ SetPend(g, "done")

LinCommit(g) ==
  /\ pend[g].st = "called" /\ CallOf(g).op = "Commit"
  /\ cst[CallOf(g).c] # "absent"
  /\ \E r \in {"ok", "nothing", "unknown"} : MatchR(g, r) /\ Commit(CallOf(g).c, r)
  /\ SetPend(g, "done")

LinRollback(g) ==
  /\ pend[g].st = "called" /\ CallOf(g).op = "Rollback"
  /\ cst[CallOf(g).c] # "absent"
  /\ \E r \in {"ok", "nothing"} : MatchR(g, r) /\ Rollback(CallOf(g).c, r)
  /\ SetPend(g, "done")

\* SetCleanerConfig while the buffer is in use: from its linearization point on the new cleaner decides what is retained /
\* must be reclaimed (the quiescent checks use the current cleaner)
LinSetCleaner(g) ==
  /\ pend[g].st = "called" /\ CallOf(g).op = "SetCleaner"
  /\ MatchR(g, "ok")
  /\ LET c == CallOf(g).cleaner IN
       SetCleaner(IF c.kind \in {"fixed", "const"} THEN [kind |-> c.kind, max |-> c.max, target |-> c.target] ELSE [kind |-> "default"])
  /\ SetPend(g, "done")

\* C04, bounded delay (sustain profile, single consumer under the default cleaner): Commit returns carry a timestamp and the
\* number of values the consumer has committed; what was committed more than cooldown + slack before this Size call
\* must have been reclaimed by the time Size is evaluated, although state changes keep arriving
DuePos(g) ==
  LET c == CallOf(g)
      js == {j \in 1..(pend[g].line - 1) : /\ TLog[j].ev = "ret" /\ "pos" \in DOMAIN TLog[j] /\ TLog[j].exec = c.exec
                                            /\ TLog[j].r = "ok" /\ TLog[j].ts + c.bound_us <= c.ts}
  IN IF js = {} THEN 0 ELSE TLog[CHOOSE j \in js : \A k \in js : k <= j].pos
Timed(g) == "bound_us" \in DOMAIN CallOf(g)

LinSize(g) ==
  /\ pend[g].st = "called" /\ CallOf(g).op = "Size"
  /\ (Chk("reclaim") /\ Timed(g)) => base >= DuePos(g)
  /\ IF HasRet(g) /\ (Chk("retention") \/ (Chk("reclaim") /\ Timed(g))) THEN SizeObs(RetOf(g).n) ELSE UNCHANGED vars
  /\ SetPend(g, "done")

LinSlice(g) ==
  /\ pend[g].st = "called" /\ CallOf(g).op = "Slice"
  /\ IF HasRet(g) /\ (Chk("retention") \/ Chk("close")) THEN SliceObs(RetOf(g).s) ELSE UNCHANGED vars
  /\ SetPend(g, "done")

LinDiff(g) ==
  /\ pend[g].st = "called" /\ CallOf(g).op = "Diff"
  /\ cst[CallOf(g).c] # "absent"
  /\ IF HasRet(g) THEN DiffObs(CallOf(g).c, RetOf(g).d, RetOf(g).ok)
     ELSE cmu[CallOf(g).c] = NoG /\ UNCHANGED vars
  /\ SetPend(g, "done")

\* C12: a returned Close has closed the Done channel
DoneClosed(g) == (HasRet(g) /\ Chk("close")) => RetOf(g).done

LinCloseBegin(g) ==
  /\ pend[g].st = "called" /\ CallOf(g).op = "Close"
  /\ CloseBegin(g, CallOf(g).c)
  /\ SetPend(g, "held")

LinCloseOk(g) ==
  /\ pend[g].st = "held" /\ CallOf(g).op = "Close"
  /\ MatchR(g, "ok") /\ DoneClosed(g) /\ CloseOk(g, CallOf(g).c, "ok")
  /\ SetPend(g, "done")

LinCloseAgain(g) ==
  /\ pend[g].st = "called" /\ CallOf(g).op = "Close"
  /\ MatchR(g, "once") /\ DoneClosed(g) /\ CloseAgain(CallOf(g).c, "once")
  /\ SetPend(g, "done")

LinBCloseBegin(g) ==
  /\ pend[g].st = "called" /\ CallOf(g).op = "BClose"
  /\ BCloseBegin(g)
  /\ SetPend(g, "held")

LinBCloseOk(g) ==
  /\ pend[g].st = "held" /\ CallOf(g).op = "BClose"
  /\ MatchR(g, "ok") /\ DoneClosed(g) /\ BCloseOk(g, "ok")
  /\ SetPend(g, "done")

LinBCloseAgain(g) ==
  /\ pend[g].st = "called" /\ CallOf(g).op = "BClose"
  /\ MatchR(g, "once") /\ DoneClosed(g) /\ BCloseAgain("once")
  /\ SetPend(g, "done")

(***************************************************************************)
(* Buffer.Range(ctx, c, fn) with fn always returning true, as a program    *)
(* over the L1 actions:  Diff;  loop { ctx check; Get; fn; Diff; Commit }. *)
(* The values passed to fn are returned in the ret line (vs).              *)
(***************************************************************************)
BRc(g) == CallOf(g).c
BRFinish(g, r, acc) ==
  /\ HasRet(g) => (RetOf(g).r = r /\ RetOf(g).vs = acc)
  /\ pend' = [pend EXCEPT ![g].st = "done", ![g].pc = "", ![g].acc = acc]

BRDiff0(g) ==
  /\ pend[g].st = "called" /\ CallOf(g).op = "BRange" /\ pend[g].pc = "diff0"
  /\ cmu[BRc(g)] = NoG
  /\ IF BRc(g) \in reg /\ Len(log) - Pos(BRc(g)) > 0
       THEN pend' = [pend EXCEPT ![g].pc = "get"]
       ELSE BRFinish(g, "ok", <<>>)
  /\ UNCHANGED vars

\* the context check at the top of Range's loop returns the context error without any rollback
BRTopCancel(g) ==
  /\ pend[g].st = "called" /\ pend[g].pc = "get" /\ Cx(g) # "live"
  /\ BRFinish(g, "canceled", pend[g].acc)
  /\ UNCHANGED vars

\* a Get that fails on its own context check (cancelled after Range's check) is rolled back by Range
BRGetQuick(g) ==
  /\ pend[g].st = "called" /\ pend[g].pc = "get" /\ Cx(g) = "now"
  /\ pend' = [pend EXCEPT ![g].pc = "rb", ![g].cont = TRUE]      \* cont = TRUE: the error is "canceled"
  /\ UNCHANGED vars

BRGetAcquire(g) ==
  /\ pend[g].st = "called" /\ pend[g].pc = "get"
  /\ GetAcquire(g, BRc(g))
  /\ pend' = [pend EXCEPT ![g].st = "held", ![g].pc = "held"]

BRGetDone(g) ==
  /\ pend[g].st = "held" /\ pend[g].pc = "held" /\ CallOf(g).op = "BRange"
  /\ LET c == BRc(g) acc == pend[g].acc
         v == IF HasRet(g) /\ Len(RetOf(g).vs) > Len(acc) THEN RetOf(g).vs[Len(acc) + 1]
              ELSE IF Pos(c) < Len(log) /\ Pos(c) >= 0 THEN log[Pos(c) + 1] ELSE 0 IN
     \/ /\ GetDone(g, c, Cx(g), "ok", v)
        /\ pend' = [pend EXCEPT ![g].st = "called", ![g].pc = "cb", ![g].acc = Append(acc, v)]
     \/ /\ GetDone(g, c, Cx(g), "canceled", 0)
        /\ pend' = [pend EXCEPT ![g].st = "called", ![g].pc = "rb", ![g].cont = TRUE]
     \/ /\ GetDone(g, c, Cx(g), "past", 0)
        /\ pend' = [pend EXCEPT ![g].st = "called", ![g].pc = "rb", ![g].cont = FALSE]

BRDiff(g) ==
  /\ pend[g].st = "called" /\ pend[g].pc = "diff"
  /\ cmu[BRc(g)] = NoG
  /\ pend' = [pend EXCEPT ![g].pc = "commit", ![g].cont = (BRc(g) \in reg /\ Len(log) - Pos(BRc(g)) > 0)]
  /\ UNCHANGED vars

BRCommit(g) ==
  /\ pend[g].st = "called" /\ pend[g].pc = "commit"
  /\ \/ /\ Commit(BRc(g), "ok")
        /\ IF pend[g].cont THEN pend' = [pend EXCEPT ![g].pc = "get"] ELSE BRFinish(g, "ok", pend[g].acc)
     \/ /\ Commit(BRc(g), "nothing")
        /\ pend' = [pend EXCEPT ![g].pc = "rbn"]

BRRollback(g) ==
  /\ pend[g].st = "called" /\ pend[g].pc \in {"rb", "rbn"}
  /\ \E r \in {"ok", "nothing"} : Rollback(BRc(g), r)
  /\ BRFinish(g, IF pend[g].pc = "rbn" THEN "nothing" ELSE IF pend[g].cont THEN "canceled" ELSE "past", pend[g].acc)

LinAny(g) ==
  \/ LinPut(g) \/ LinNewConsumer(g) \/ LinGetQuick(g) \/ LinGetAcquire(g) \/ LinGetDone(g)
  \/ LinCommit(g) \/ LinRollback(g) \/ LinSize(g) \/ LinSlice(g) \/ LinDiff(g) \/ LinSetCleaner(g)
  \/ LinCloseBegin(g) \/ LinCloseOk(g) \/ LinCloseAgain(g)
  \/ LinBCloseBegin(g) \/ LinBCloseOk(g) \/ LinBCloseAgain(g)
  \/ BRDiff0(g) \/ BRTopCancel(g) \/ BRGetQuick(g) \/ BRGetAcquire(g) \/ BRGetDone(g) \/ BRDiff(g) \/ BRCommit(g) \/ BRRollback(g)

TSilent ==
  /\ SilentOK /\ Silent
  /\ \/ \E g \in GS : pend[g].st \in {"called", "held"} /\ LinAny(g)
     \/ /\ UNCHANGED pend
        /\ \/ \E c \in Cons : CloseBegin(NoG, c) \/ CloseCancel(c) \/ CloseFinish(c)
           \/ BCloseCancel \/ BCloseFinish
           \/ Clean
  /\ UNCHANGED <<cancelled, cdone, rs>>

\* invalid cleaner configurations are refused and leave the configuration as it was
TBadCleaner ==
  /\ IsEv("badcleaner") /\ Consume
  /\ Cur.refused /\ Cur.hasfn /\ Cur.cooldown_us = Cur.want_us
  /\ UNCHANGED <<vars, pend, cancelled, cdone, rs>>

TVNext ==
  \/ TSilent
  \/ TBadCleaner
  \/ TReset \/ TCall \/ TRet \/ TBcb \/ TCancel \/ TCancelled \/ TRBegin \/ TCb \/ TREnd \/ TQuiescent \/ TFinal

TVSpec == TVInit /\ [][TVNext]_tvars

\* high-water mark of consumed lines (register 1); acceptance = the whole trace was consumed on some path
Mark ==
  /\ IF l - 1 > TLCGet(1) THEN TLCSet(1, l - 1) ELSE TRUE
  /\ IF l - 1 = NL THEN PrintT(<<"TVDONE", NL>>) /\ TLCSet("exit", TRUE) ELSE TRUE
Accepted ==
  /\ PrintT(<<"TVMARK", TLCGet(1), NL>>)
  /\ TLCGet(1) = NL
=============================================================================
