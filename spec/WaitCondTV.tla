------------------------------ MODULE WaitCondTV ------------------------------
(***************************************************************************)
(* Trace validation of recorded histories of bigbuff.WaitCond used on its  *)
(* own (C05: "a Get (or any WaitCond wait) ... there is no schedule in     *)
(* which the wake-up is lost.  WaitCond returns nil only after its         *)
(* predicate returned true with the lock held, and otherwise returns the   *)
(* context's error even if nobody ever broadcasts").                       *)
(* The driver shares one integer between waiters (predicate: value >= k)   *)
(* and setters (set the value under the lock, then Broadcast); everything  *)
(* that is logged while the cond's lock is held (pred, ret, set) is logged *)
(* in lock order, so the value a predicate sees is the model's value.      *)
(* Deterministic history specification: no search.                         *)
(***************************************************************************)
EXTENDS Integers, Sequences, FiniteSets, TLC, Json, IOUtils, TLCExt

TLog == ndJsonDeserialize(IOEnv.TRACE)
NL   == Len(TLog)
GS == {TLog[i].g : i \in {j \in 1..NL : "g" \in DOMAIN TLog[j]}}

VARIABLES l, pend,
  flag,     \* the shared value
  cstart,   \* contexts whose cancellation has been announced (it happens after the line)
  cdone,    \* contexts whose cancellation has completed
  rw        \* the cond's locker is the read side of a RWMutex (shared between waiters and WaitCond's watcher)
vars == <<flag, cstart, cdone, rw>>
tvars == <<vars, l, pend>>
Idle == [st |-> "idle", line |-> 0, last |-> "none", pre |-> FALSE]

TVInit == l = 1 /\ pend = [g \in GS |-> Idle] /\ flag = 0 /\ cstart = {} /\ cdone = {} /\ rw = FALSE /\ TLCSet(1, 0)

Cur == TLog[l]
IsEv(e) == l <= NL /\ Cur.ev = e
Consume == l' = l + 1
CallOf(g) == TLog[pend[g].line]

TReset == IsEv("reset") /\ Consume /\ pend' = [g \in GS |-> Idle] /\ flag' = 0 /\ cstart' = {} /\ cdone' = {} /\ rw' = Cur.rw

\* (the call line is logged with the lock held, just before WaitCond is entered)
TCall ==
  /\ IsEv("call") /\ Consume /\ pend[Cur.g].st = "idle"
  /\ pend' = [pend EXCEPT ![Cur.g] = [st |-> "called", line |-> l, last |-> "none", pre |-> Cur.ctx \in cdone]]
  /\ UNCHANGED vars

\* the predicate runs with the lock held: it sees the current value, and nobody else is inside a section it excludes;
\* a context that was cancelled before the call is reported without the predicate being consulted
TPred ==
  /\ IsEv("pred") /\ Consume
  /\ pend[Cur.g].st = "called" /\ ~pend[Cur.g].pre
  /\ Cur.val = flag /\ Cur.ok = (flag >= CallOf(Cur.g).k) /\ ~Cur.overlap
  /\ pend' = [pend EXCEPT ![Cur.g].last = IF Cur.ok THEN "true" ELSE "false"]
  /\ UNCHANGED vars

\* nil only after the predicate returned true with the lock held (and the lock is still held: the value is unchanged);
\* otherwise the context's error, and only if that context is being / has been cancelled
TRet ==
  /\ IsEv("ret") /\ Consume
  /\ pend[Cur.g].st = "called" /\ CallOf(Cur.g).ret = l
  /\ ~Cur.overlap /\ Cur.val = flag
  /\ \/ Cur.r = "ok" /\ pend[Cur.g].last = "true" /\ flag >= CallOf(Cur.g).k /\ ~pend[Cur.g].pre
     \/ Cur.r = "canceled" /\ CallOf(Cur.g).ctx # 0 /\ CallOf(Cur.g).ctx \in cstart /\ pend[Cur.g].last # "true"
  /\ pend' = [pend EXCEPT ![Cur.g] = Idle]
  /\ UNCHANGED vars

TSet == IsEv("set") /\ Consume /\ ~Cur.overlap /\ flag' = Cur.v /\ UNCHANGED <<pend, cstart, cdone, rw>>
TCancel == IsEv("cancel") /\ Consume /\ cstart' = cstart \cup {Cur.ctx} /\ UNCHANGED <<pend, flag, cdone, rw>>
TCancelled == IsEv("cancelled") /\ Consume /\ cdone' = cdone \cup {Cur.ctx} /\ UNCHANGED <<pend, flag, cstart, rw>>

\* invalid arguments: an error, no panic, the predicate is not called
TBad == IsEv("bad") /\ Consume /\ Cur.err /\ ~Cur.panicked /\ ~Cur.called /\ UNCHANGED <<vars, pend>>

\* exactly quiescent: a wait is only still pending if its predicate is false and its context (if any) is live -
\* anything else is a lost wake-up
TQuiescent ==
  /\ IsEv("quiescent") /\ Consume
  /\ {g \in GS : pend[g].st # "idle"} = {Cur.pending[i] : i \in 1..Len(Cur.pending)}
  \* KNOWN FINDING D6 (known_findings.json, "waitcond-rlocker-cancel"): when the cond's locker is shared (RWMutex.RLocker)
  \* WaitCond's watcher cannot exclude the waiter, so its broadcast can fall between the waiter's checks and its park;
  \* exactly that situation is accepted here and named, everything else is not
  /\ Cur.exact => \A g \in GS : pend[g].st = "called" =>
        /\ flag < CallOf(g).k
        /\ \/ CallOf(g).ctx \notin cdone
           \/ rw /\ PrintT(<<"TVKNOWN", "waitcond-rlocker-cancel", l>>)
  /\ UNCHANGED <<vars, pend>>

\* the census is taken after every call has returned and every context that can be cancelled has been cancelled; some
\* waits used context.Background(): their watcher goroutines must be gone too (WaitCond cancels its derived context)
TFinal == IsEv("final") /\ Consume /\ Cur.leaked = 0 /\ Cur.returned /\ UNCHANGED <<vars, pend>>

TVNext == TReset \/ TCall \/ TPred \/ TRet \/ TSet \/ TCancel \/ TCancelled \/ TBad \/ TQuiescent \/ TFinal
TVSpec == TVInit /\ [][TVNext]_tvars
Mark ==
  /\ IF l - 1 > TLCGet(1) THEN TLCSet(1, l - 1) ELSE TRUE
  /\ IF l - 1 = NL THEN PrintT(<<"TVDONE", NL>>) /\ TLCSet("exit", TRUE) ELSE TRUE
Accepted == PrintT(<<"TVMARK", TLCGet(1), NL>>) /\ TLCGet(1) = NL
=============================================================================
