------------------------------ MODULE RetryTV ------------------------------
(***************************************************************************)
(* C18.  bigbuff.ExponentialRetry as a function of the operation's outcome *)
(* sequence and the point at which the context is cancelled, transcribed   *)
(* from the property statement.  Every "retry" line of the trace is one    *)
(* scenario executed by the real code (the wait is scripted, the delay     *)
(* calculation is the real one, observed); "calc" lines sample the real    *)
(* delay calculation; TLC checks each line against Expected.               *)
(*   outcomes: "e" plain error, "f1".."f3" fatal (nested 1..3), "ok"       *)
(*   cancel:   "none" | "pre" | "before:1" | "during:i" | "wait:i"         *)
(***************************************************************************)
EXTENDS Integers, Sequences, FiniteSets, TLC, Json, IOUtils, TLCExt

TLog == ndJsonDeserialize(IOEnv.TRACE)
NL   == Len(TLog)

(***************************************************************************)
(* Run(seq, i, ckind, cidx): the loop from call i on.  The context is      *)
(* checked before every call; a call in flight always completes; after a   *)
(* plain error the delay is computed and the wait is entered (even if the  *)
(* context is already cancelled), then the check fails.                    *)
(*   ckind "pre": cancelled before the first check                         *)
(*   ckind "during", cidx = j: cancelled inside call j                     *)
(*   ckind "wait",   cidx = j: cancelled inside the wait that follows call j *)
(***************************************************************************)
RECURSIVE Run(_, _, _, _)
Run(seq, i, ckind, cidx) ==
  IF ckind = "pre" \/ (ckind \in {"during", "wait"} /\ cidx < i)
    THEN [calls |-> i - 1, res |-> 0, err |-> "canceled", waits |-> i - 1]
    ELSE LET o == seq[i] IN
         IF o = "ok" THEN [calls |-> i, res |-> i * 10, err |-> "nil", waits |-> i - 1]
         ELSE IF o # "e" THEN [calls |-> i, res |-> i * 10, err |-> "base" \o ToString(i), waits |-> i - 1]
         ELSE Run(seq, i + 1, ckind, cidx)

\* slots < 2^min(k,31): split words (hi = slots >> 20, lo = slots & (2^20 - 1)) because TLC integers are 32 bit
SlotsOK(k, hi, lo) ==
  LET m == IF k > 31 THEN 31 ELSE k IN
  /\ hi >= 0 /\ lo >= 0 /\ lo < 1048576
  /\ IF m <= 20 THEN hi = 0 /\ lo < 2^m ELSE hi < 2^(m - 20)

CheckRetry(c) ==
  LET x == Run(c.seq, 1, c.ckind, c.cidx) IN
  /\ ~c.panic
  /\ c.calls = x.calls
  /\ c.err = x.err
  /\ c.res = x.res
  \* one delay per failed call that was followed by a wait; the k-th uses k (capped at 31) and the effective rate
  /\ Len(c.delays) = x.waits
  /\ \A k \in 1..Len(c.delays) :
       /\ c.delays[k].k = (IF k > 31 THEN 31 ELSE k)
       /\ c.delays[k].rate_ns = c.eff_rate_ns
       /\ c.delays[k].exact
       /\ SlotsOK(c.delays[k].k, c.delays[k].slots_hi, c.delays[k].slots_lo)

CheckCalc(c) == c.exact /\ SlotsOK(c.k, c.slots_hi, c.slots_lo)

VARIABLE l
TVInit == l = 1 /\ TLCSet(1, 0) /\ TLCSet(2, 0)
Cur == TLog[l]
CaseOK == CASE Cur.ev = "retry" -> CheckRetry(Cur) [] Cur.ev = "calc" -> CheckCalc(Cur) [] Cur.ev = "wait" -> Cur.cut_short [] OTHER -> TRUE
TCase ==
  /\ l <= NL
  /\ IF CaseOK THEN TRUE ELSE PrintT(<<"TVBAD", l>>) /\ TLCSet(2, TLCGet(2) + 1)
  /\ l' = l + 1
TVSpec == TVInit /\ [][TCase]_l
Mark ==
  /\ IF l - 1 > TLCGet(1) THEN TLCSet(1, l - 1) ELSE TRUE
  /\ IF l - 1 = NL THEN PrintT(<<"TVDONE", NL>>) /\ TLCSet("exit", TRUE) ELSE TRUE
Accepted == PrintT(<<"TVMARK", TLCGet(1), NL>>) /\ PrintT(<<"TVBADCOUNT", TLCGet(2)>>) /\ TLCGet(1) = NL /\ TLCGet(2) = 0
=============================================================================
