------------------------------ MODULE WorkerL2 ------------------------------
(***************************************************************************)
(* bigbuff.Worker at the granularity of its critical sections (C17).       *)
(* Holders call Do (one critical section: start an instance and its        *)
(* watcher if none exists, create the wait group if the watcher has taken  *)
(* the previous one, register) and later call the returned done function.  *)
(* The watcher repeatedly takes the current wait group under the mutex and *)
(* waits for it outside; when none was re-created it keeps the mutex,      *)
(* closes stop, waits for the instance to exit, resets and unlocks.        *)
(***************************************************************************)
EXTENDS Integers, Sequences, FiniteSets, TLC

CONSTANTS Holders, MaxDo   \* holder processes; how many times each may call Do

VARIABLES
  mu,        \* holder of the mutex: "free", "watcher", or a holder id
  wgCur,     \* id of the wait group in x.wg, 0 = nil
  wgCnt,     \* [wait group id -> counter]
  wgNext,    \* next fresh wait group id
  exists,    \* stop/done channels exist (an instance exists)
  stopClosed, doneClosed,
  wpc,       \* watcher: "none" | "lock" | "waitwg" | "stop" | "waitdone"
  wwg,       \* wait group the watcher is waiting on
  ipc,       \* instance: "none" | "run" | "sawstop"
  hpc,       \* [Holders -> "idle" | "holding" ]
  hwg,       \* [Holders -> wait group the holder registered on]
  ndo,       \* [Holders -> number of Do calls made]
  inst       \* number of instances started so far

vars == <<mu, wgCur, wgCnt, wgNext, exists, stopClosed, doneClosed, wpc, wwg, ipc, hpc, hwg, ndo, inst>>
WG == 1..(Cardinality(Holders) * MaxDo + 1)

Init ==
  /\ mu = "free" /\ wgCur = 0 /\ wgCnt = [w \in WG |-> 0] /\ wgNext = 1
  /\ exists = FALSE /\ stopClosed = FALSE /\ doneClosed = FALSE
  /\ wpc = "none" /\ wwg = 0 /\ ipc = "none"
  /\ hpc = [h \in Holders |-> "idle"] /\ hwg = [h \in Holders |-> 0] /\ ndo = [h \in Holders |-> 0]
  /\ inst = 0

\* Do: one critical section
Do(h) ==
  /\ hpc[h] = "idle" /\ ndo[h] < MaxDo /\ mu = "free"
  /\ IF ~exists
       THEN /\ exists' = TRUE /\ stopClosed' = FALSE /\ doneClosed' = FALSE
            /\ wpc' = "lock" /\ ipc' = "run" /\ inst' = inst + 1
       ELSE UNCHANGED <<exists, stopClosed, doneClosed, wpc, ipc, inst>>
  /\ LET w == IF wgCur = 0 THEN wgNext ELSE wgCur IN
     /\ wgCur' = w
     /\ wgNext' = IF wgCur = 0 THEN wgNext + 1 ELSE wgNext
     /\ wgCnt' = [wgCnt EXCEPT ![w] = @ + 1]
     /\ hwg' = [hwg EXCEPT ![h] = w]
  /\ hpc' = [hpc EXCEPT ![h] = "holding"]
  /\ ndo' = [ndo EXCEPT ![h] = @ + 1]
  /\ UNCHANGED <<mu, wwg>>

Done(h) ==
  /\ hpc[h] = "holding"
  /\ wgCnt' = [wgCnt EXCEPT ![hwg[h]] = @ - 1]
  /\ hpc' = [hpc EXCEPT ![h] = "idle"]
  /\ UNCHANGED <<mu, wgCur, wgNext, exists, stopClosed, doneClosed, wpc, wwg, ipc, hwg, ndo, inst>>

\* watcher: lock; take the wait group or decide to stop (keeping the mutex)
WatcherLock ==
  /\ wpc = "lock" /\ mu = "free"
  /\ IF wgCur = 0
       THEN /\ mu' = "watcher" /\ wpc' = "stop" /\ UNCHANGED <<wgCur, wwg>>
       ELSE /\ wwg' = wgCur /\ wgCur' = 0 /\ wpc' = "waitwg" /\ UNCHANGED mu
  /\ UNCHANGED <<wgCnt, wgNext, exists, stopClosed, doneClosed, ipc, hpc, hwg, ndo, inst>>

WatcherWgDone ==
  /\ wpc = "waitwg" /\ wgCnt[wwg] = 0
  /\ wpc' = "lock"
  /\ UNCHANGED <<mu, wgCur, wgCnt, wgNext, exists, stopClosed, doneClosed, wwg, ipc, hpc, hwg, ndo, inst>>

WatcherStop ==
  /\ wpc = "stop"
  /\ stopClosed' = TRUE /\ wpc' = "waitdone"
  /\ UNCHANGED <<mu, wgCur, wgCnt, wgNext, exists, doneClosed, wwg, ipc, hpc, hwg, ndo, inst>>

WatcherReset ==
  /\ wpc = "waitdone" /\ doneClosed
  /\ exists' = FALSE /\ wpc' = "none" /\ mu' = "free"
  /\ UNCHANGED <<wgCur, wgCnt, wgNext, stopClosed, doneClosed, wwg, ipc, hpc, hwg, ndo, inst>>

InstSeeStop ==
  /\ ipc = "run" /\ stopClosed
  /\ ipc' = "sawstop"
  /\ UNCHANGED <<mu, wgCur, wgCnt, wgNext, exists, stopClosed, doneClosed, wpc, wwg, hpc, hwg, ndo, inst>>

InstExit ==
  /\ ipc = "sawstop"
  /\ ipc' = "none" /\ doneClosed' = TRUE
  /\ UNCHANGED <<mu, wgCur, wgCnt, wgNext, exists, stopClosed, wpc, wwg, hpc, hwg, ndo, inst>>

Next ==
  \/ \E h \in Holders : Do(h) \/ Done(h)
  \/ WatcherLock \/ WatcherWgDone \/ WatcherStop \/ WatcherReset \/ InstSeeStop \/ InstExit

Spec == Init /\ [][Next]_vars
        /\ WF_vars(WatcherLock) /\ WF_vars(WatcherWgDone) /\ WF_vars(WatcherStop) /\ WF_vars(WatcherReset)
        /\ WF_vars(InstSeeStop) /\ WF_vars(InstExit)
        /\ \A h \in Holders : WF_vars(Done(h))

-----------------------------------------------------------------------------
Holding == {h \in Holders : hpc[h] = "holding"}
\* C17: while anybody holds the worker an instance is running and its stop channel is open
HeldMeansRunning == Holding # {} => (ipc = "run" /\ ~stopClosed)
\* C17: the stop channel is closed only when nobody holds the worker (same statement, seen from the closing side)
StopOnlyWhenUnheld == (exists /\ stopClosed) => Holding = {}
\* C17: at most one instance: a new one is only started when the previous one has exited
OneInstance == [][inst' > inst => ipc = "none"]_vars
\* C17 (liveness): every started instance is stopped once nobody holds it
EventuallyStopped == [](ipc # "none" => <>(ipc = "none" \/ Holding # {}))
=============================================================================
