------------------------------ MODULE ChannelL1 ------------------------------
(***************************************************************************)
(* L1 specification of bigbuff.Channel: a Consumer over a source channel   *)
(* with a pending buffer (values taken and not yet committed) and a        *)
(* rollback counter.  Every call is atomic under the Channel's mutex; a    *)
(* Get that finds nothing polls, i.e. stays pending.  (C13, C12)           *)
(***************************************************************************)
EXTENDS Integers, Sequences, FiniteSets, TLC

VARIABLES
  src,        \* values sent to the source channel and not yet taken
  srcClosed,  \* the source channel has been closed
  buf,        \* values taken and not yet committed
  rb,         \* number of trailing buf entries that must be delivered again
  cancelled,  \* the Channel's context is cancelled (by Close or through its parent)
  once,       \* Close's once has been taken
  closer,     \* who took it ("sys" for the library's own watcher goroutine)
  done,       \* Close has completed: Done() is closed
  taken,      \* history: every value taken from the source, in order
  commits     \* history: every value committed, in order

vars == <<src, srcClosed, buf, rb, cancelled, once, closer, done, taken, commits>>

Pending == Len(buf) - rb

Init ==
  /\ src = <<>> /\ srcClosed = FALSE /\ buf = <<>> /\ rb = 0
  /\ cancelled = FALSE /\ once = FALSE /\ closer = "" /\ done = FALSE
  /\ taken = <<>> /\ commits = <<>>

\* environment: a value is sent to / the source channel is closed
SrcSend(v) == ~srcClosed /\ src' = Append(src, v) /\ UNCHANGED <<srcClosed, buf, rb, cancelled, once, closer, done, taken, commits>>
SrcClose   == ~srcClosed /\ srcClosed' = TRUE /\ UNCHANGED <<src, buf, rb, cancelled, once, closer, done, taken, commits>>
\* environment: the context the Channel was built on is cancelled
ParentCancel == ~cancelled /\ cancelled' = TRUE /\ UNCHANGED <<src, srcClosed, buf, rb, once, closer, done, taken, commits>>

\* cx: state of the call's own context: "live" | "pre" (cancelled before the call) | "now" (cancelled during it)
Get(cx, r, v) ==
  \/ /\ r = "canceled" /\ (cx # "live" \/ cancelled) /\ UNCHANGED vars
  \/ /\ r = "ok" /\ cx # "pre" /\ ~cancelled /\ rb > 0
     /\ v = buf[Len(buf) - rb + 1]
     /\ rb' = rb - 1
     /\ UNCHANGED <<src, srcClosed, buf, cancelled, once, closer, done, taken, commits>>
  \/ /\ r = "ok" /\ cx # "pre" /\ ~cancelled /\ rb = 0 /\ src # <<>>
     /\ v = Head(src)
     /\ src' = Tail(src) /\ buf' = Append(buf, v) /\ taken' = Append(taken, v)
     /\ UNCHANGED <<srcClosed, rb, cancelled, once, closer, done, commits>>

GetCanComplete(cx) == cx # "live" \/ cancelled \/ rb > 0 \/ src # <<>>

Commit(r) ==
  \/ /\ r = "canceled" /\ cancelled /\ UNCHANGED vars
  \/ /\ r = "nothing" /\ ~cancelled /\ Pending = 0 /\ UNCHANGED vars
  \/ /\ r = "ok" /\ ~cancelled /\ Pending > 0
     /\ commits' = commits \o SubSeq(buf, 1, Pending)
     /\ buf' = SubSeq(buf, Pending + 1, Len(buf))
     /\ UNCHANGED <<src, srcClosed, rb, cancelled, once, closer, done, taken>>

Rollback(r) ==
  \/ /\ r = "nothing" /\ Pending = 0 /\ UNCHANGED vars
  \/ /\ r = "ok" /\ Pending > 0
     /\ rb' = Len(buf)
     /\ UNCHANGED <<src, srcClosed, buf, cancelled, once, closer, done, taken, commits>>

BufferObs(s) == s = buf /\ UNCHANGED vars

CloseBegin(g) ==
  /\ ~once /\ (g = "sys" => cancelled)
  /\ once' = TRUE /\ closer' = g
  /\ UNCHANGED <<src, srcClosed, buf, rb, cancelled, done, taken, commits>>
CloseFinish ==
  /\ once /\ ~done
  /\ cancelled' = TRUE /\ done' = TRUE
  /\ UNCHANGED <<src, srcClosed, buf, rb, once, closer, taken, commits>>
CloseOk(g, r)  == r = "ok" /\ done /\ closer = g /\ UNCHANGED vars
CloseAgain(r)  == r = "once" /\ done /\ UNCHANGED vars

-----------------------------------------------------------------------------
TypeOK == rb \in 0..Len(buf)

\* C13: committed values followed by the pending buffer are exactly what has been taken from the source
Lossless == commits \o buf = taken

\* C13 (action property): once the Channel is cancelled nothing more is taken from the source
NothingTakenAfterCancel == [][cancelled => (taken' = taken /\ (src' = src \/ Len(src') > Len(src)))]_vars

\* C13 (action property): values are taken from the head of the source only, in order
TakenInOrder == [][Len(taken') > Len(taken) => (src # <<>> /\ taken' = Append(taken, Head(src)) /\ src' = Tail(src))]_vars

\* C13 (action property): only Commit drops from the pending buffer, and only the delivered prefix
OnlyCommitDrops == [][Len(buf') < Len(buf) => (commits' = commits \o SubSeq(buf, 1, Len(buf) - Len(buf')) /\ rb' = rb /\ Len(buf') = rb)]_vars
=============================================================================
