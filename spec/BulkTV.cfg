SPECIFICATION TVSpec
CONSTRAINT Mark
POSTCONDITION Accepted
CHECK_DEADLOCK FALSE
