SPECIFICATION Spec
CONSTANTS
  Callers = {1, 2, 3, 4}
  KeyOf <- MCKeyOf4
  MaxItems = 9
  SuccRunning = TRUE
INVARIANTS AnsweredByLater ExecsLeCalls CleanAtEnd
PROPERTIES NoOverlap Answered
CHECK_DEADLOCK FALSE
