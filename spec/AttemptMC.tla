------------------------------ MODULE AttemptMC ------------------------------
(***************************************************************************)
(* bigbuff.LinearAttempt at the granularity of its producer loop (C20):    *)
(* inline first value; then per iteration: select on {ctx.Done, tick};     *)
(* re-check the context; non-blocking send (a full buffer drops the tick   *)
(* without counting); close on exit.  The ticker, the cancellation and the *)
(* receiver are environment actions.                                       *)
(***************************************************************************)
EXTENDS Integers, Sequences, FiniteSets, TLC

CONSTANTS Counts      \* set of count arguments to explore

VARIABLES count, pre, buf, closed, cancelled, pc, i, tick, got, sentAfterCancel, forwardedAfterCancel
vars == <<count, pre, buf, closed, cancelled, pc, i, tick, got, sentAfterCancel, forwardedAfterCancel>>

Init ==
  /\ count \in Counts /\ pre \in BOOLEAN
  /\ buf = 0 /\ closed = FALSE /\ cancelled = pre /\ pc = "start" /\ i = 0 /\ tick = FALSE /\ got = 0
  /\ sentAfterCancel = 0 /\ forwardedAfterCancel = 0

\* the call itself: closed at once if the context is cancelled; else the first value; closed if count = 1
Start ==
  /\ pc = "start"
  /\ IF cancelled THEN closed' = TRUE /\ pc' = "done" /\ UNCHANGED buf
     ELSE /\ buf' = 1
          /\ IF count = 1 THEN closed' = TRUE /\ pc' = "done" ELSE pc' = "select" /\ UNCHANGED closed
  /\ UNCHANGED <<count, pre, cancelled, i, tick, got, sentAfterCancel, forwardedAfterCancel>>

Tick == ~tick /\ tick' = TRUE /\ UNCHANGED <<count, pre, buf, closed, cancelled, pc, i, got, sentAfterCancel, forwardedAfterCancel>>
Cancel == ~cancelled /\ cancelled' = TRUE /\ UNCHANGED <<count, pre, buf, closed, pc, i, tick, got, sentAfterCancel, forwardedAfterCancel>>

\* select { case <-ctx.Done(): return; case t = <-ticker.C: }   (either ready case may be chosen)
SelectDone ==
  /\ pc = "select" /\ cancelled
  /\ pc' = "done" /\ closed' = TRUE
  /\ UNCHANGED <<count, pre, buf, cancelled, i, tick, got, sentAfterCancel, forwardedAfterCancel>>
SelectTick ==
  /\ pc = "select" /\ tick
  /\ tick' = FALSE /\ pc' = "check"
  /\ UNCHANGED <<count, pre, buf, closed, cancelled, i, got, sentAfterCancel, forwardedAfterCancel>>

\* if ctx.Err() != nil { return }
Check ==
  /\ pc = "check"
  /\ IF cancelled THEN pc' = "done" /\ closed' = TRUE ELSE pc' = "send" /\ UNCHANGED closed
  /\ UNCHANGED <<count, pre, buf, cancelled, i, tick, got, sentAfterCancel, forwardedAfterCancel>>

\* select { case c <- t: i++ ; default: }
Send ==
  /\ pc = "send"
  /\ IF buf = 0
       THEN /\ buf' = 1 /\ i' = i + 1
            /\ forwardedAfterCancel' = IF cancelled THEN forwardedAfterCancel + 1 ELSE forwardedAfterCancel
            /\ IF i + 1 >= count - 1 THEN pc' = "done" /\ closed' = TRUE ELSE pc' = "select" /\ UNCHANGED closed
       ELSE /\ pc' = "select" /\ UNCHANGED <<buf, i, closed, forwardedAfterCancel>>
  /\ UNCHANGED <<count, pre, cancelled, tick, got, sentAfterCancel>>

Recv ==
  /\ buf = 1
  /\ buf' = 0 /\ got' = got + 1
  /\ sentAfterCancel' = IF cancelled THEN sentAfterCancel + 1 ELSE sentAfterCancel
  /\ UNCHANGED <<count, pre, closed, cancelled, pc, i, tick, forwardedAfterCancel>>

Next == Start \/ Tick \/ Cancel \/ SelectDone \/ SelectTick \/ Check \/ Send \/ Recv
Spec == Init /\ [][Next]_vars /\ WF_vars(Start) /\ WF_vars(SelectDone) /\ WF_vars(SelectTick) /\ WF_vars(Check) /\ WF_vars(Send) /\ WF_vars(Tick)

\* C20
AtMostCount == got + buf <= count
AtMostOneForwardedAfterCancel == forwardedAfterCancel <= 1
AtMostTwoAfterCancel == sentAfterCancel <= 2
PreCancelledIsEmpty == (pre /\ pc = "done") => (buf = 0 /\ got = 0 /\ closed)
\* always closed: after the count-th value, or once the context is cancelled (needs the ticker to keep ticking)
EventuallyClosed == (cancelled \/ got + buf = count) ~> closed
ProducerExits == (cancelled ~> pc = "done")
=============================================================================
