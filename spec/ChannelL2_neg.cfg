SPECIFICATION Spec
CONSTANTS
  Getters = {"a", "b"}
  MaxSrc = 3
INVARIANTS NothingTakenAfterCancel
CHECK_DEADLOCK FALSE
