SPECIFICATION Spec
CONSTANTS
  Senders = {"s1", "s2"}
  Subs = {"u1", "u2"}
  MaxSend = 1
  MaxSub = 2
INVARIANTS NotBroken NoDuplicates CountIsReceipts QuietConsistent
PROPERTIES SendTerminates UnsubTerminates
CHECK_DEADLOCK FALSE
