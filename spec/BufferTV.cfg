SPECIFICATION TVSpec
CONSTANTS
  Cons = {1, 2, 3, 99}
  NoG = "none"
CONSTRAINT Mark

POSTCONDITION Accepted
CHECK_DEADLOCK FALSE
