SPECIFICATION Spec
CONSTANTS
  Callers = {1, 2, 3}
  KeyOf <- MCKeyOf
  MaxItems = 7
  SuccRunning = TRUE
INVARIANTS NeverTwoKeysRunning

CHECK_DEADLOCK FALSE
