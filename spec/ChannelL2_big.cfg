SPECIFICATION Spec
CONSTANTS
  Getters = {"a", "b", "c"}
  MaxSrc = 4
INVARIANTS TypeOK NothingTakenAfterDone StreamIntact MutexOK
PROPERTIES DoneFollowsCancel GetsReturnAfterCancel
CHECK_DEADLOCK FALSE
