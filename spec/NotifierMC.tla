------------------------------ MODULE NotifierMC ------------------------------
EXTENDS NotifierL1
CONSTANTS Keys, Pubs, Ctxs, MaxPub

VARIABLE npub
mcvars == <<vars, npub>>

VT == {"int", "string", "nil"}

MCNext ==
  \/ /\ UNCHANGED npub
     /\ \/ \E k \in Keys, t \in Targets, c \in Ctxs \cup {0}, r \in {"ok", "panic"} : Subscribe(k, t, c, c # 0 /\ t = 1, r)
        \/ \E s \in reg : AutoUnsub(s)
        \/ \E k \in Keys, t \in Targets, r \in {"ok", "panic"} : Unsubscribe(k, t, r)
        \/ \E g \in Pubs : \E s \in (IF g \in Publishing THEN inflight[g].pending ELSE {}) :
               PubDeliver(g, s, Len(queue[s.t]) <= Cap[s.t]) \/ PubDrop(g, s)
        \/ \E g \in Pubs : PubEnd(g)
        \/ \E t \in Targets : queue[t] # <<>> /\ Recv(t, Head(queue[t]))
        \/ \E c \in Ctxs : c \notin ctxc /\ Cancel(c)
  \/ /\ npub < MaxPub /\ npub' = npub + 1
     /\ \E g \in Pubs, k \in Keys, vt \in VT, pc \in Ctxs \cup {0} : PubBegin(g, npub + 1, k, npub + 1, vt, pc)

MCInit == Init /\ npub = 0
MCSpec == MCInit /\ [][MCNext]_mcvars

\* C15: exactly once: a (publish, target) pair is delivered at most once (hist is a set; count deliveries via queue growth)
\* expressed as: a delivery removes the subscription from pending, so it can never be delivered again
OncePerPublish == \A g \in Publishing : \A s \in inflight[g].pending : <<inflight[g].id, s.t>> \notin hist
MCEType == (1 :> "int") @@ (2 :> "any") @@ (3 :> "ptr")
MCCap == (1 :> 0) @@ (2 :> 1) @@ (3 :> 0)
=============================================================================
