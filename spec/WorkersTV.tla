------------------------------ MODULE WorkersTV ------------------------------
(***************************************************************************)
(* Trace validation of recorded bigbuff.Workers histories (C14).  The      *)
(* oracle is the L1 reading of the property: each Call's function runs     *)
(* exactly once and the caller gets its result; never more functions       *)
(* running than the largest count requested so far; Wait returns only when *)
(* nothing is running or queued, after which Count is 0; at an exactly     *)
(* quiescent point nothing may be queued unless some function is running   *)
(* (held open by the driver).  fnstart/fnend lines are logged by the       *)
(* submitted functions themselves.                                         *)
(***************************************************************************)
EXTENDS Integers, Sequences, FiniteSets, TLC, Json, IOUtils, TLCExt

TLog == ndJsonDeserialize(IOEnv.TRACE)
NL   == Len(TLog)
GS == {TLog[i].g : i \in {j \in 1..NL : "g" \in DOMAIN TLog[j]}}

VARIABLES l, pend, queued, running, finished, maxreq, released, idle, gatedIds
vars == <<queued, running, finished, maxreq, released, idle, gatedIds>>
tvars == <<vars, l, pend>>
Idle == [st |-> "idle", line |-> 0]

TVInit ==
  /\ l = 1 /\ pend = [g \in GS |-> Idle]
  /\ queued = {} /\ running = {} /\ finished = {} /\ maxreq = 0 /\ released = {} /\ idle = TRUE /\ gatedIds = {}
  /\ TLCSet(1, 0)

Cur == TLog[l]
IsEv(e) == l <= NL /\ Cur.ev = e
Consume == l' = l + 1
CallOf(g) == TLog[pend[g].line]
HasRet(g) == CallOf(g).ret # 0
RetOf(g) == TLog[CallOf(g).ret]
SetPend(g, st) == pend' = [pend EXCEPT ![g].st = st]
Max(a, b) == IF a > b THEN a ELSE b

TReset ==
  /\ IsEv("reset") /\ Consume
  /\ pend' = [g \in GS |-> Idle]
  /\ queued' = {} /\ running' = {} /\ finished' = {} /\ maxreq' = 0 /\ released' = {} /\ idle' = TRUE /\ gatedIds' = {}

TCall ==
  /\ IsEv("call") /\ Consume /\ pend[Cur.g].st = "idle"
  /\ pend' = [pend EXCEPT ![Cur.g] = [st |-> "called", line |-> l]]
  \* a count is "requested" from the moment the call is made
  /\ maxreq' = IF Cur.op = "Call" THEN Max(maxreq, Cur.n) ELSE maxreq
  /\ gatedIds' = IF Cur.op = "Call" /\ Cur.gated THEN gatedIds \cup {Cur.id} ELSE gatedIds
  /\ UNCHANGED <<queued, running, finished, released, idle>>

TRet ==
  /\ IsEv("ret") /\ Consume
  /\ pend[Cur.g].st = "done" /\ CallOf(Cur.g).ret = l
  /\ pend' = [pend EXCEPT ![Cur.g] = Idle]
  /\ UNCHANGED vars

\* the function of call id starts: it must have been enqueued, must not have started before, and must respect the bound
TFnStart ==
  /\ IsEv("fnstart") /\ Consume
  /\ Cur.id \in queued
  /\ queued' = queued \ {Cur.id}
  /\ running' = running \cup {Cur.id}
  /\ Cardinality(running') <= maxreq
  /\ UNCHANGED <<pend, finished, maxreq, released, idle, gatedIds>>

TFnEnd ==
  /\ IsEv("fnend") /\ Consume
  /\ Cur.id \in running
  /\ running' = running \ {Cur.id}
  /\ finished' = finished \cup {Cur.id}
  /\ UNCHANGED <<pend, queued, maxreq, released, idle, gatedIds>>

\* MinDuration(d, fn): the wrapped function takes at least d (its value and error pass through: checked at the return)
TFnSpan ==
  /\ IsEv("fnspan") /\ Consume
  /\ Cur.id \in finished /\ Cur.dur_ns >= Cur.min_us * 1000
  /\ UNCHANGED <<vars, pend>>

\* invalid use (count <= 0, nil function, duration <= 0) panics and has no effect
TBad ==
  /\ IsEv("bad") /\ Consume
  /\ Cur.panicked /\ ~Cur.ran
  /\ UNCHANGED <<vars, pend>>

TRelease ==
  /\ IsEv("release") /\ Consume
  /\ released' = released \cup {Cur.id}
  /\ UNCHANGED <<pend, queued, running, finished, maxreq, idle, gatedIds>>

Blocked(id) == id \in gatedIds /\ id \notin released

CanProgress(g) ==
  LET p == pend[g] e == TLog[p.line] IN
  CASE p.st = "called" /\ e.op = "Call" -> TRUE
    [] p.st = "held" /\ e.op = "Call" ->
         IF e.id \in queued THEN running = {}                 \* queued with nothing running: starvation
         ELSE IF e.id \in running THEN ~Blocked(e.id)
         ELSE TRUE
    [] p.st = "called" /\ e.op = "Wait" -> running = {} /\ queued = {}
    [] p.st = "called" /\ e.op = "Count" -> TRUE
    [] p.st = "done" -> TRUE
    [] OTHER -> FALSE

TQuiescent ==
  /\ IsEv("quiescent") /\ Consume
  /\ {g \in GS : pend[g].st # "idle"} = {Cur.pending[i] : i \in 1..Len(Cur.pending)}
  /\ \A g \in GS : pend[g].st # "idle" => ~CanProgress(g)
  /\ \A id \in running : Blocked(id)
  \* exactly quiescent: every live worker is inside a function, and nothing is queued without a worker
  /\ Cur.count = Cardinality(running)
  /\ Cur.queue = Cardinality(queued)
  /\ UNCHANGED <<vars, pend>>

TFinal ==
  /\ IsEv("final") /\ Consume
  /\ Cur.leaked = 0 /\ Cur.returned
  /\ queued = {} /\ running = {}
  /\ UNCHANGED <<vars, pend>>

SilentOK == l <= NL /\ Cur.ev \notin {"call", "reset", "release"}

LinEnqueue(g) ==
  /\ pend[g].st = "called" /\ CallOf(g).op = "Call"
  /\ queued' = queued \cup {CallOf(g).id}
  /\ idle' = FALSE
  /\ SetPend(g, "held")
  /\ UNCHANGED <<running, finished, maxreq, released, gatedIds>>

\* the call returns its own function's result, after that function has returned
LinCallDone(g) ==
  /\ pend[g].st = "held" /\ CallOf(g).op = "Call"
  /\ CallOf(g).id \in finished
  /\ HasRet(g) => (RetOf(g).v = CallOf(g).id * 10 /\ RetOf(g).r = CallOf(g).want)
  /\ SetPend(g, "done")
  /\ UNCHANGED vars

LinWait(g) ==
  /\ pend[g].st = "called" /\ CallOf(g).op = "Wait"
  /\ running = {} /\ queued = {}
  \* the worker count Wait returned with (observed exactly under the controlled scheduler, -1 = not observed)
  /\ HasRet(g) => RetOf(g).count \in {0, -1}
  \* ... and (WorkersL2's invariant QueueServed, observed on the real state) nothing is queued without a worker
  /\ HasRet(g) => RetOf(g).queue \in {0, -1}
  /\ idle' = TRUE
  /\ SetPend(g, "done")
  /\ UNCHANGED <<queued, running, finished, maxreq, released, gatedIds>>

LinCount(g) ==
  /\ pend[g].st = "called" /\ CallOf(g).op = "Count"
  /\ HasRet(g) => /\ RetOf(g).n >= Cardinality(running)
                  /\ RetOf(g).n <= maxreq
                  /\ idle => RetOf(g).n = 0         \* after Wait (and before any new call) Count is zero
                  \* the real state at the return (exact under the controlled scheduler): a queued function has a worker
                  /\ RetOf(g).queue > 0 => RetOf(g).count > 0
  /\ SetPend(g, "done")
  /\ UNCHANGED vars

TSilent ==
  /\ SilentOK /\ l' = l
  /\ \E g \in GS : pend[g].st \in {"called", "held"} /\ (LinEnqueue(g) \/ LinCallDone(g) \/ LinWait(g) \/ LinCount(g))

TVNext == TSilent \/ TReset \/ TCall \/ TRet \/ TFnStart \/ TFnEnd \/ TFnSpan \/ TBad \/ TRelease \/ TQuiescent \/ TFinal
TVSpec == TVInit /\ [][TVNext]_tvars
Mark ==
  /\ IF l - 1 > TLCGet(1) THEN TLCSet(1, l - 1) ELSE TRUE
  /\ IF l - 1 = NL THEN PrintT(<<"TVDONE", NL>>) /\ TLCSet("exit", TRUE) ELSE TRUE
Accepted == PrintT(<<"TVMARK", TLCGet(1), NL>>) /\ TLCGet(1) = NL
=============================================================================
