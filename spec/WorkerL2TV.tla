----------------------------- MODULE WorkerL2TV -----------------------------
(***************************************************************************)
(* Gate-level binding of WorkerL2 to the code: every scheduling decision   *)
(* of the controlled scheduler (goroutine g passes hook point pt and runs  *)
(* to its next hook point) is a "step" line; the steps that carry a        *)
(* critical section of worker.go are mapped to the L2 action that the code *)
(* after that hook point performs, and that action must be enabled in the  *)
(* L2 state reached so far.  The invariants of WorkerL2 are checked in     *)
(* every state the real execution drives the model into.                   *)
(*   step D_h  worker.do.locked      -> Do(h)                              *)
(*   call Done (driver line)         -> Done(h)                            *)
(*   step W    worker.wait.locked    -> WatcherLock                        *)
(*   step W    worker.after.woke1    -> WatcherWgDone                      *)
(*   step W    worker.wait.stop      -> WatcherStop                        *)
(*   step W    worker.after.passed1  -> WatcherReset                       *)
(*   isawstop (instance's own line)  -> InstSeeStop                        *)
(*   step I    worker.do.close       -> InstExit                           *)
(* A rejection means the code no longer follows the protocol WorkerL2      *)
(* describes (model drift: the model-checking results no longer speak      *)
(* about this code), or - when an invariant fails - that the real          *)
(* execution reached a state the property forbids.                         *)
(* Executions with instances that return by themselves are outside         *)
(* WorkerL2 and are skipped by the driver for this leg.                    *)
(***************************************************************************)
EXTENDS WorkerL2, Json, IOUtils, TLCExt

TLog == ndJsonDeserialize(IOEnv.TRACE)
NL   == Len(TLog)

VARIABLES l, curh     \* curh: [driver goroutine -> the hold (L2 holder) of its Do call in progress]
tvars == <<vars, l, curh>>
GS == {TLog[i].g : i \in {j \in 1..NL : TLog[j].ev = "call"}}

Cur == TLog[l]
IsEv(e) == l <= NL /\ Cur.ev = e
Consume == l' = l + 1
\* every Do call of a driver is one L2 holder (the hold number h of its call line), used once
IsHolder(g) == g \in GS

TVInit == Init /\ l = 1 /\ curh = [g \in GS |-> 0] /\ TLCSet(1, 0)

TReset ==
  /\ IsEv("reset") /\ Consume
  /\ mu' = "free" /\ wgCur' = 0 /\ wgCnt' = [w \in WG |-> 0] /\ wgNext' = 1
  /\ exists' = FALSE /\ stopClosed' = FALSE /\ doneClosed' = FALSE
  /\ wpc' = "none" /\ wwg' = 0 /\ ipc' = "none"
  /\ hpc' = [h \in Holders |-> "idle"] /\ hwg' = [h \in Holders |-> 0] /\ ndo' = [h \in Holders |-> 0]
  /\ inst' = 0 /\ curh' = [g \in GS |-> 0]

Mapped(g, pt) ==
  \/ IsHolder(g) /\ pt = "worker.do.locked"
  \/ pt \in {"worker.wait.locked", "worker.after.woke1", "worker.wait.stop", "worker.after.passed1", "worker.do.close"}

TStep ==
  /\ IsEv("step") /\ Consume
  /\ LET g == Cur.g pt == Cur.pt IN
     IF ~Mapped(g, pt) THEN UNCHANGED vars
     ELSE CASE pt = "worker.do.locked"     -> Do(curh[g])
            [] pt = "worker.wait.locked"   -> WatcherLock
            [] pt = "worker.after.woke1"   -> WatcherWgDone
            [] pt = "worker.wait.stop"     -> WatcherStop
            [] pt = "worker.after.passed1" -> WatcherReset
            [] pt = "worker.do.close"      -> InstExit
  /\ UNCHANGED curh

\* the driver's lines: "call Done" is logged immediately before the done function is invoked
TCall ==
  /\ IsEv("call") /\ Consume
  /\ IF Cur.op = "Done" THEN Done(Cur.h) /\ UNCHANGED curh
     ELSE UNCHANGED vars /\ curh' = [curh EXCEPT ![Cur.g] = Cur.h]

TSawStop == IsEv("isawstop") /\ Consume /\ InstSeeStop /\ UNCHANGED curh

TOther ==
  /\ l <= NL /\ Cur.ev \in {"ret", "istart", "iend", "quiescent", "final"} /\ Consume
  \* at the driver's quiescent points the model is at rest too
  /\ Cur.ev = "quiescent" => (wpc \in {"none", "waitwg"} /\ (ipc = "none") = ~Cur.instance)
  /\ UNCHANGED <<vars, curh>>

TVNext == TReset \/ TStep \/ TCall \/ TSawStop \/ TOther
TVSpec == TVInit /\ [][TVNext]_tvars

Mark ==
  /\ IF l - 1 > TLCGet(1) THEN TLCSet(1, l - 1) ELSE TRUE
  /\ IF l - 1 = NL THEN PrintT(<<"TVDONE", NL>>) /\ TLCSet("exit", TRUE) ELSE TRUE
Accepted == PrintT(<<"TVMARK", TLCGet(1), NL>>) /\ TLCGet(1) = NL
=============================================================================
