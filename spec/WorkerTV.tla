------------------------------ MODULE WorkerTV ------------------------------
(***************************************************************************)
(* Trace validation of recorded bigbuff.Worker histories (C17).  The       *)
(* worker function supplied by the driver logs istart (it started),        *)
(* isawstop (it observed its stop channel closed) and iend (it is about to *)
(* return).  Holders log call/ret of Do and the call of the done function. *)
(* Some instances return by themselves (iselfend) although they were never *)
(* told to stop: the Worker then still counts as running until every       *)
(* holder is done (no new instance may start beside it), and the stop      *)
(* channel handed to that instance must still be closed in the end (a      *)
(* monitor goroutine of the driver logs izstop when it is).                *)
(***************************************************************************)
EXTENDS Integers, Sequences, FiniteSets, TLC, Json, IOUtils, TLCExt

TLog == ndJsonDeserialize(IOEnv.TRACE)
NL   == Len(TLog)
GS == {TLog[i].g : i \in {j \in 1..NL : "g" \in DOMAIN TLog[j]}}

VARIABLES l, pend,
  running,     \* id of the instance that has started and not yet announced its return, 0 = none
  sawstop,     \* that instance has seen its stop channel closed
  holding,     \* holder ids whose Do has returned and whose done function has not been called yet
  owed,        \* a Do has returned while no instance had announced itself yet: one must start
  started,     \* instance ids seen so far
  zombies,     \* instances that returned by themselves and whose stop channel has not been reported closed yet
  clear,       \* since the last self-return there was a moment without holders (necessary for the Worker to reset)
  strict       \* controlled scheduler: the log order is the real order
vars == <<running, sawstop, holding, owed, started, zombies, clear, strict>>
tvars == <<vars, l, pend>>
Idle == [st |-> "idle", line |-> 0]

TVInit == l = 1 /\ pend = [g \in GS |-> Idle] /\ running = 0 /\ sawstop = FALSE /\ holding = {} /\ owed = FALSE /\ started = {} /\ zombies = {} /\ clear = FALSE /\ strict = FALSE /\ TLCSet(1, 0)

Cur == TLog[l]
IsEv(e) == l <= NL /\ Cur.ev = e
Consume == l' = l + 1

TReset ==
  /\ IsEv("reset") /\ Consume
  /\ pend' = [g \in GS |-> Idle] /\ running' = 0 /\ sawstop' = FALSE /\ holding' = {} /\ owed' = FALSE /\ started' = {}
  /\ zombies' = {} /\ clear' = FALSE /\ strict' = (Cur.mode = "c")

TCall ==
  /\ IsEv("call") /\ Consume /\ pend[Cur.g].st = "idle"
  /\ pend' = [pend EXCEPT ![Cur.g] = [st |-> "called", line |-> l]]
  \* calling the done function ends the hold (the call line is logged before the function is invoked)
  /\ holding' = IF Cur.op = "Done" THEN holding \ {Cur.h} ELSE holding
  /\ clear' = (clear \/ (holding' = {} /\ ~owed))
  /\ UNCHANGED <<running, sawstop, owed, started, zombies, strict>>

TRet ==
  /\ IsEv("ret") /\ Consume
  /\ pend[Cur.g].st = "called" /\ TLog[pend[Cur.g].line].ret = l
  /\ pend' = [pend EXCEPT ![Cur.g] = Idle]
  /\ IF Cur.op = "Do"
       THEN \* from the moment Do returns an instance is running whose stop channel is open: never one that is stopping
            /\ ~(running # 0 /\ sawstop)
            /\ holding' = holding \cup {Cur.h}
            \* (a Do may join an instance that has returned by itself: nothing new is owed then)
            /\ owed' = (owed \/ (running = 0 /\ zombies = {}))
       ELSE UNCHANGED <<holding, owed>>
  /\ UNCHANGED <<running, sawstop, started, zombies, clear, strict>>

\* at most one instance at a time; instance ids are fresh
TIStart ==
  /\ IsEv("istart") /\ Consume
  /\ running = 0 /\ Cur.i \notin started
  \* never beside an instance that returned by itself and is still held: the Worker resets only once nobody holds it
  \* (controlled scheduler: its stop channel has been reported closed; free-running: the report may lag)
  /\ zombies # {} => (~strict /\ clear)
  /\ running' = Cur.i /\ sawstop' = FALSE /\ started' = started \cup {Cur.i} /\ owed' = FALSE
  /\ UNCHANGED <<pend, holding, zombies, clear, strict>>

\* the stop channel is closed only after every outstanding done function has been called
TISawStop ==
  /\ IsEv("isawstop") /\ Consume
  /\ running = Cur.i /\ holding = {} /\ ~owed
  /\ sawstop' = TRUE
  /\ UNCHANGED <<pend, running, holding, owed, started, zombies, clear, strict>>

TIEnd ==
  /\ IsEv("iend") /\ Consume
  /\ running = Cur.i /\ sawstop
  /\ running' = 0 /\ sawstop' = FALSE
  /\ UNCHANGED <<pend, holding, owed, started, zombies, clear, strict>>

\* the function returns by itself, never having seen its stop channel closed
TISelfEnd ==
  /\ IsEv("iselfend") /\ Consume
  /\ running = Cur.i /\ ~sawstop
  /\ running' = 0 /\ zombies' = zombies \cup {Cur.i} /\ clear' = (holding = {} /\ ~owed)
  /\ UNCHANGED <<pend, sawstop, holding, owed, started, strict>>

\* the stop channel of an instance that returned by itself is closed: only after every outstanding done function was called
TIZStop ==
  /\ IsEv("izstop") /\ Consume
  /\ Cur.i \in zombies /\ clear
  /\ strict => (holding = {} /\ ~owed)
  /\ zombies' = zombies \ {Cur.i}
  /\ UNCHANGED <<pend, running, sawstop, holding, owed, started, clear, strict>>

TQuiescent ==
  /\ IsEv("quiescent") /\ Consume
  /\ {g \in GS : pend[g].st # "idle"} = {Cur.pending[i] : i \in 1..Len(Cur.pending)}
  \* exactly quiescent: no call of Do or done is stuck, a promised instance has started,
  \* and an instance that nobody holds has been stopped and has exited
  /\ Cur.pending = <<>>
  /\ ~owed
  /\ holding = {} => (running = 0 /\ zombies = {})
  /\ holding # {} => ((running # 0 /\ ~sawstop) \/ zombies # {})
  /\ Cur.instance = (running # 0 \/ zombies # {})
  /\ UNCHANGED <<vars, pend>>

TFinal ==
  /\ IsEv("final") /\ Consume
  /\ Cur.leaked = 0 /\ Cur.returned /\ running = 0
  /\ zombies = {}                  \* every started instance was told to stop in the end
  /\ UNCHANGED <<vars, pend>>

TVNext == TReset \/ TCall \/ TRet \/ TIStart \/ TISawStop \/ TIEnd \/ TISelfEnd \/ TIZStop \/ TQuiescent \/ TFinal
TVSpec == TVInit /\ [][TVNext]_tvars
Mark ==
  /\ IF l - 1 > TLCGet(1) THEN TLCSet(1, l - 1) ELSE TRUE
  /\ IF l - 1 = NL THEN PrintT(<<"TVDONE", NL>>) /\ TLCSet("exit", TRUE) ELSE TRUE
Accepted == PrintT(<<"TVMARK", TLCGet(1), NL>>) /\ TLCGet(1) = NL
=============================================================================
