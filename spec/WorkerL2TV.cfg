SPECIFICATION TVSpec
CONSTANTS
  Holders = {1, 2, 3, 4, 5, 6, 7, 8, 9, 10, 11, 12}
  MaxDo = 1
CONSTRAINT Mark
INVARIANTS HeldMeansRunning StopOnlyWhenUnheld
POSTCONDITION Accepted
CHECK_DEADLOCK FALSE
