SPECIFICATION TVSpec
CONSTANTS
  Targets = {1, 2, 3, 4, 5, 6}
  EType <- TVEType
  Cap <- TVCap
CONSTRAINT Mark
POSTCONDITION Accepted
CHECK_DEADLOCK FALSE
