------------------------------ MODULE NotifierTV ------------------------------
(* Trace validation of recorded bigbuff.Notifier histories against NotifierL1 (conventions: see BufferTV). *)
EXTENDS NotifierL1, Json, IOUtils, TLCExt

TLog == ndJsonDeserialize(IOEnv.TRACE)
NL   == Len(TLog)
GS == {TLog[i].g : i \in {j \in 1..NL : "g" \in DOMAIN TLog[j]}}

VARIABLES l, pend, cdone   \* cdone: contexts whose cancellation has completed
tvars == <<vars, l, pend, cdone>>
Idle == [st |-> "idle", line |-> 0, pre |-> FALSE]

TVInit == Init /\ l = 1 /\ pend = [g \in GS |-> Idle] /\ cdone = {} /\ TLCSet(1, 0)

Cur == TLog[l]
IsEv(e) == l <= NL /\ Cur.ev = e
Consume == l' = l + 1
CallOf(g) == TLog[pend[g].line]
HasRet(g) == CallOf(g).ret # 0
RetOf(g) == TLog[CallOf(g).ret]
MatchR(g, r) == HasRet(g) => RetOf(g).r = r
SetPend(g, st) == pend' = [pend EXCEPT ![g].st = st]

TReset ==
  /\ IsEv("reset") /\ Consume
  /\ reg' = {} /\ inflight' = <<>> /\ queue' = [t \in Targets |-> <<>>] /\ ctxc' = {} /\ hist' = {}
  /\ pend' = [g \in GS |-> Idle] /\ cdone' = {}

TCall ==
  /\ IsEv("call") /\ Consume /\ pend[Cur.g].st = "idle"
  /\ pend' = [pend EXCEPT ![Cur.g] = [st |-> "called", line |-> l, pre |-> ("ctx" \in DOMAIN Cur /\ Cur.ctx \in cdone)]]
  \* a context SubscribeCancel derives from an already cancelled parent is dead from the start
  /\ LET dead(S) == Cur.op = "Sub" /\ Cur.auto /\ Cur.parent \in S IN
       /\ ctxc' = IF dead(ctxc) THEN ctxc \cup {Cur.ctx} ELSE ctxc
       /\ cdone' = IF dead(cdone) THEN cdone \cup {Cur.ctx} ELSE cdone
  /\ UNCHANGED <<reg, inflight, queue, hist>>

TRet ==
  /\ IsEv("ret") /\ Consume
  /\ pend[Cur.g].st = "done" /\ CallOf(Cur.g).ret = l
  /\ pend' = [pend EXCEPT ![Cur.g] = Idle]
  /\ UNCHANGED <<vars, cdone>>

\* contexts SubscribeCancel derived (so far) from context p: they are cancelled with it
Derived(p) == {TLog[i].ctx : i \in {j \in 1..(l - 1) : TLog[j].ev = "call" /\ TLog[j].op = "Sub" /\ TLog[j].auto /\ TLog[j].parent = p}}
TCancel == IsEv("cancel") /\ Consume /\ UNCHANGED <<pend, cdone>>
           /\ ctxc' = ctxc \cup {Cur.ctx} \cup Derived(Cur.ctx) /\ UNCHANGED <<reg, inflight, queue, hist>>
TCancelled == IsEv("cancelled") /\ Consume /\ cdone' = cdone \cup {Cur.ctx} \cup Derived(Cur.ctx) /\ UNCHANGED <<vars, pend>>

\* receivers currently waiting on target t (a Recv call that has not obtained its value yet)
\* (t = 0 in a Recv call: the receiver takes from whichever target has something)
Waiting(t) == Cardinality({g \in GS : pend[g].st = "called" /\ CallOf(g).op = "Recv" /\ CallOf(g).t \in {t, 0}})
CanTake(t) == Len(queue[t]) < Cap[t] + Waiting(t)

PubCanStep(g) ==
  \/ \E s \in inflight[g].pending : CanTake(s.t) \/ ~Live(s.ctx)
  \/ inflight[g].pending = {} \/ ~Live(inflight[g].pctx)

\* (a writer queued on the registry lock holds back new publishers: a called Subscribe/Unsubscribe, or the goroutine
\* of a SubscribeCancel whose context is cancelled and which has not unsubscribed yet)
WriterWaiting == \/ \E g \in GS : pend[g].st = "called" /\ CallOf(g).op \in {"Sub", "Unsub"}
                 \/ \E s \in reg : s.auto /\ ~Live(s.ctx)

CanProgress(g) ==
  LET p == pend[g] e == TLog[p.line] IN
  CASE p.st = "called" /\ e.op \in {"Sub", "Unsub"} -> Publishing = {}
    [] p.st = "called" /\ e.op = "Pub" -> p.pre \/ ~WriterWaiting
       \* (the publish context is only looked at before queueing on the registry lock, and again inside the select)
    [] p.st = "held" /\ e.op = "Pub" -> PubCanStep(g)
    [] p.st = "called" /\ e.op = "Recv" -> IF e.t = 0 THEN \E t \in Targets : queue[t] # <<>> ELSE queue[e.t] # <<>>
    [] p.st = "done" -> TRUE
    [] OTHER -> FALSE

TQuiescent ==
  /\ IsEv("quiescent") /\ Consume
  /\ {g \in GS : pend[g].st # "idle"} = {Cur.pending[i] : i \in 1..Len(Cur.pending)}
  /\ Cur.exact => \A g \in GS : pend[g].st # "idle" => ~CanProgress(g)
  \* nothing the library still has to do by itself (SubscribeCancel's unsubscribe) is outstanding
  /\ Cur.exact => ~\E s \in reg : s.auto /\ s.ctx \in cdone /\ Publishing = {}
  /\ UNCHANGED <<vars, pend, cdone>>

TFinal ==
  /\ IsEv("final") /\ Consume
  /\ \A t \in Targets : queue[t] = <<>>          \* everything that was sent has been received by its target, nothing else
  /\ Cur.nsubs = Cardinality(reg)                \* the registry holds exactly the subscriptions the model holds
  /\ Cur.leaked = 0 /\ Cur.returned             \* C12: no goroutine of the library (SubscribeCancel's) outlives its context
  /\ UNCHANGED <<vars, pend, cdone>>

SilentOK == l <= NL /\ Cur.ev \notin {"call", "reset", "cancelled"}

LinSub(g) ==
  /\ pend[g].st = "called" /\ CallOf(g).op = "Sub"
  /\ \E r \in {"ok", "panic"} : MatchR(g, r) /\ Subscribe(CallOf(g).key, CallOf(g).t, CallOf(g).ctx, CallOf(g).auto, r)
  /\ SetPend(g, "done")
LinUnsub(g) ==
  /\ pend[g].st = "called" /\ CallOf(g).op = "Unsub"
  /\ \E r \in {"ok", "panic"} : MatchR(g, r) /\ Unsubscribe(CallOf(g).key, CallOf(g).t, r)
  /\ SetPend(g, "done")
LinPubQuick(g) ==
  /\ pend[g].st = "called" /\ CallOf(g).op = "Pub"
  /\ MatchR(g, "ok") /\ PubQuick(CallOf(g).ctx) /\ SetPend(g, "done")
LinPubBegin(g) ==
  /\ pend[g].st = "called" /\ CallOf(g).op = "Pub"
  /\ LET e == CallOf(g) IN PubBegin(g, e.id, e.key, e.v, e.vt, e.ctx)
  /\ SetPend(g, "held")
LinPubStep(g) ==
  /\ pend[g].st = "held" /\ CallOf(g).op = "Pub" /\ UNCHANGED pend
  /\ \E s \in inflight[g].pending : PubDeliver(g, s, CanTake(s.t)) \/ PubDrop(g, s)
LinPubEnd(g) ==
  /\ pend[g].st = "held" /\ CallOf(g).op = "Pub"
  /\ MatchR(g, "ok") /\ PubEnd(g) /\ SetPend(g, "done")
LinRecv(g) ==
  /\ pend[g].st = "called" /\ CallOf(g).op = "Recv"
  /\ \/ /\ MatchR(g, "ok") /\ HasRet(g) /\ CallOf(g).t \in {0, RetOf(g).t} /\ Recv(RetOf(g).t, RetOf(g).v)
     \/ /\ MatchR(g, "stop") /\ HasRet(g) /\ UNCHANGED vars
  /\ SetPend(g, "done")

TSilent ==
  /\ SilentOK /\ l' = l /\ UNCHANGED cdone
  /\ \/ \E g \in GS : pend[g].st \in {"called", "held"} /\
          (LinSub(g) \/ LinUnsub(g) \/ LinPubQuick(g) \/ LinPubBegin(g) \/ LinPubStep(g) \/ LinPubEnd(g) \/ LinRecv(g))
     \/ (UNCHANGED pend /\ \E s \in reg : AutoUnsub(s))

TVNext == TSilent \/ TReset \/ TCall \/ TRet \/ TCancel \/ TCancelled \/ TQuiescent \/ TFinal
TVSpec == TVInit /\ [][TVNext]_tvars

Mark ==
  /\ IF l - 1 > TLCGet(1) THEN TLCSet(1, l - 1) ELSE TRUE
  /\ IF l - 1 = NL THEN PrintT(<<"TVDONE", NL>>) /\ TLCSet("exit", TRUE) ELSE TRUE
Accepted == PrintT(<<"TVMARK", TLCGet(1), NL>>) /\ TLCGet(1) = NL

\* the harness always uses the same five target channels
TVEType == (1 :> "int") @@ (2 :> "any") @@ (3 :> "ptr") @@ (4 :> "string") @@ (5 :> "nslice") @@ (6 :> "func")
TVCap   == (1 :> 0) @@ (2 :> 1) @@ (3 :> 0) @@ (4 :> 0) @@ (5 :> 0) @@ (6 :> 0)
=============================================================================
