SPECIFICATION GSpec
CONSTANTS
  MaxSrc = 3
  Depth = 5
INVARIANTS GenOut Lossless TypeOK
CHECK_DEADLOCK FALSE
